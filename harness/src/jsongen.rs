//! A small JSON tree with a style-varying writer (key order as given, whitespace and string escapes
//! varied by a seed), used by the independent response-grammar generator (C16 and the simulated
//! server).

use serde_json::Value;

#[derive(Clone, Debug, PartialEq)]
pub enum J {
    Null,
    Bool(bool),
    U(u64),
    I(i64),
    /// raw number token (e.g. "1.5", "1e3")
    Raw(String),
    S(String),
    A(Vec<J>),
    O(Vec<(String, J)>),
}

impl J {
    pub fn obj(v: Vec<(&str, J)>) -> J {
        J::O(v.into_iter().map(|(k, v)| (k.to_string(), v)).collect())
    }
    pub fn s(x: &str) -> J {
        J::S(x.to_string())
    }
    pub fn to_value(&self) -> Value {
        match self {
            J::Null => Value::Null,
            J::Bool(b) => Value::Bool(*b),
            J::U(u) => Value::from(*u),
            J::I(i) => Value::from(*i),
            J::Raw(r) => serde_json::from_str(r).unwrap_or(Value::Null),
            J::S(s) => Value::String(s.clone()),
            J::A(a) => Value::Array(a.iter().map(|x| x.to_value()).collect()),
            J::O(o) => Value::Object(o.iter().map(|(k, v)| (k.clone(), v.to_value())).collect()),
        }
    }
    pub fn get_mut(&mut self, key: &str) -> Option<&mut J> {
        match self {
            J::O(o) => o.iter_mut().find(|(k, _)| k == key).map(|(_, v)| v),
            _ => None,
        }
    }
    pub fn remove(&mut self, key: &str) -> Option<J> {
        match self {
            J::O(o) => {
                let i = o.iter().position(|(k, _)| k == key)?;
                Some(o.remove(i).1)
            }
            _ => None,
        }
    }
}

pub struct Style {
    state: u64,
    /// 0 = compact, no optional escapes
    pub level: u8,
}
impl Style {
    pub fn new(seed: u64, level: u8) -> Self {
        Style { state: seed.wrapping_mul(0x9E3779B97F4A7C15) | 1, level }
    }
    fn next(&mut self, n: u32) -> u32 {
        if self.level == 0 {
            return 0;
        }
        // xorshift; a pure function of the seed, which itself comes from the tape
        let mut x = self.state;
        x ^= x << 13;
        x ^= x >> 7;
        x ^= x << 17;
        self.state = x;
        ((x >> 33) as u32) % n
    }
    fn ws(&mut self, out: &mut Vec<u8>) {
        match self.next(8) {
            0..=4 => {}
            5 => out.push(b' '),
            6 => out.push(b'\n'),
            _ => out.extend_from_slice(b"\t \r\n"),
        }
    }
}

pub fn write_string(s: &str, st: &mut Style, out: &mut Vec<u8>) {
    out.push(b'"');
    for c in s.chars() {
        let must = c == '"' || c == '\\' || (c as u32) < 0x20;
        let pick = st.next(6);
        if must || pick == 5 {
            match (c, if must { pick % 2 } else { 1 }) {
                ('"', 0) => out.extend_from_slice(b"\\\""),
                ('\\', 0) => out.extend_from_slice(b"\\\\"),
                ('\n', 0) => out.extend_from_slice(b"\\n"),
                ('\t', 0) => out.extend_from_slice(b"\\t"),
                ('\r', 0) => out.extend_from_slice(b"\\r"),
                ('/', _) if !must && pick == 5 => out.extend_from_slice(b"\\/"),
                _ => {
                    let mut buf = [0u16; 2];
                    for u in c.encode_utf16(&mut buf) {
                        out.extend_from_slice(format!("\\u{:04x}", u).as_bytes());
                    }
                }
            }
        } else {
            let mut b = [0u8; 4];
            out.extend_from_slice(c.encode_utf8(&mut b).as_bytes());
        }
    }
    out.push(b'"');
}

pub fn write(j: &J, st: &mut Style, out: &mut Vec<u8>) {
    match j {
        J::Null => out.extend_from_slice(b"null"),
        J::Bool(true) => out.extend_from_slice(b"true"),
        J::Bool(false) => out.extend_from_slice(b"false"),
        J::U(u) => out.extend_from_slice(u.to_string().as_bytes()),
        J::I(i) => out.extend_from_slice(i.to_string().as_bytes()),
        J::Raw(r) => out.extend_from_slice(r.as_bytes()),
        J::S(s) => write_string(s, st, out),
        J::A(a) => {
            out.push(b'[');
            st.ws(out);
            for (i, x) in a.iter().enumerate() {
                if i > 0 {
                    out.push(b',');
                    st.ws(out);
                }
                write(x, st, out);
                st.ws(out);
            }
            out.push(b']');
        }
        J::O(o) => {
            out.push(b'{');
            st.ws(out);
            for (i, (k, v)) in o.iter().enumerate() {
                if i > 0 {
                    out.push(b',');
                    st.ws(out);
                }
                write_string(k, st, out);
                st.ws(out);
                out.push(b':');
                st.ws(out);
                write(v, st, out);
                st.ws(out);
            }
            out.push(b'}');
        }
    }
}

pub fn to_bytes(j: &J, seed: u64, level: u8) -> Vec<u8> {
    let mut st = Style::new(seed, level);
    let mut out = vec![];
    st.ws(&mut out);
    write(j, &mut st, &mut out);
    st.ws(&mut out);
    out
}

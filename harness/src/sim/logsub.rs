//! A hand-written `tracing::Subscriber` that formats every event's fields.
//!
//! With no subscriber installed the arguments of `info!` / `error!` are never evaluated, so a
//! `Display` / `Debug` implementation that panics stays hidden.  Production embedders log.

use std::fmt::Write;
use tracing::{
    field::{Field, Visit},
    span::{Attributes, Id, Record},
    Event, Metadata, Subscriber,
};

pub struct SimLog;

struct Sink(String);
impl Visit for Sink {
    fn record_debug(&mut self, field: &Field, value: &dyn std::fmt::Debug) {
        let _ = write!(self.0, "{}={:?} ", field.name(), value);
    }
    fn record_str(&mut self, field: &Field, value: &str) {
        let _ = write!(self.0, "{}={} ", field.name(), value);
    }
}

impl Subscriber for SimLog {
    fn enabled(&self, _: &Metadata<'_>) -> bool {
        true
    }
    fn new_span(&self, attrs: &Attributes<'_>) -> Id {
        let mut s = Sink(String::new());
        attrs.record(&mut s);
        Id::from_u64(1)
    }
    fn record(&self, _: &Id, values: &Record<'_>) {
        let mut s = Sink(String::new());
        values.record(&mut s);
    }
    fn record_follows_from(&self, _: &Id, _: &Id) {}
    fn event(&self, event: &Event<'_>) {
        let mut s = Sink(String::new());
        event.record(&mut s);
        std::hint::black_box(&s.0);
    }
    fn enter(&self, _: &Id) {}
    fn exit(&self, _: &Id) {}
}

/// Run `f` with logging enabled (every log statement's arguments are formatted) or disabled.
pub fn with_logging<T>(enabled: bool, f: impl FnOnce() -> T) -> T {
    if enabled {
        tracing::subscriber::with_default(SimLog, f)
    } else {
        f()
    }
}

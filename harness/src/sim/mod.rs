//! Simulated world around the real state machine (see DESIGN.md section 3.2 / 3.3).
pub mod exec;
pub mod gen;
pub mod logsub;
pub mod types;
pub mod world;

//! Script (what the environment will answer) and op log (what happened) of the simulated world.

use crate::respgen::XResp;
use std::time::Duration;

// ------------------------------------------------------------------------------------------
// views of library values (plain data, comparable, printable)

#[derive(Clone, Debug, PartialEq, Eq, Hash, Default)]
pub struct AppView {
    pub id: String,
    pub version: String,
    pub fingerprint: Option<String>,
    /// cohort, cohorthint, cohortname
    pub cohort: [Option<String>; 3],
    pub days: Option<u32>,
}

/// (wall ns from the epoch, monotonic ns from the simulation base)
#[derive(Clone, Copy, Debug, PartialEq, Eq, Hash, Default)]
pub struct TimeView {
    pub wall: Option<i128>,
    pub mono: Option<i128>,
}

#[derive(Clone, Copy, Debug, PartialEq, Eq, Hash, Default)]
pub struct TimingView {
    pub time: TimeView,
    pub min_wait: Option<Duration>,
}

#[derive(Clone, Copy, Debug, PartialEq, Eq, Hash, Default)]
pub struct SchedView {
    pub last_update_time: Option<TimeView>,
    pub last_check_time: Option<TimeView>,
    pub next_update: Option<TimingView>,
}

#[derive(Clone, Copy, Debug, PartialEq, Eq, Hash, Default)]
pub struct ProtoView {
    pub poll: Option<Duration>,
    pub failures: u32,
    pub proxied: u32,
}

#[derive(Clone, Copy, Debug, PartialEq, Eq, Hash, Default)]
pub struct ParamsView {
    pub on_demand: bool,
    pub proxies: bool,
    pub disable_updates: bool,
    pub same_version: bool,
}

#[derive(Clone, Copy, Debug, PartialEq, Eq, Hash)]
pub enum StateView {
    Idle,
    Checking { on_demand: bool },
    ErrorChecking,
    NoUpdate,
    Deferred,
    Installing,
    WaitingForReboot,
    InstallationError,
}

#[derive(Clone, Copy, Debug, PartialEq, Eq, Hash)]
pub enum ActionView {
    NoUpdate,
    DeferredByPolicy,
    DeniedByPolicy,
    InstallError,
    Updated,
}

#[derive(Clone, Debug, PartialEq, Eq, Hash)]
pub struct AppResultView {
    pub id: String,
    pub cohort: [Option<String>; 3],
    pub days: Option<u32>,
    pub action: ActionView,
}

#[derive(Clone, Debug, PartialEq, Eq, Hash)]
pub enum ResultView {
    Ok(Vec<AppResultView>),
    /// "request:cup-validation", "request:transport", "request:http-status:503", "request:json",
    /// "request:http-builder", "request:cup-decoration", "parse", "install-plan"
    Err(String),
}

#[derive(Clone, Debug, PartialEq)]
pub enum EventView {
    State(StateView),
    Schedule(SchedView),
    Protocol(ProtoView),
    Result(ResultView),
    Progress(f32),
    /// number of apps in the announced response and their ids
    ServerResponse(Vec<String>),
    InstallerError(String),
}

#[derive(Clone, Debug, PartialEq, Eq, Hash)]
pub struct EventJson {
    pub event_type: i64,
    pub event_result: i64,
    pub errorcode: Option<i64>,
    pub previous_version: Option<String>,
    pub next_version: Option<String>,
    pub download_time_ms: Option<u64>,
}

#[derive(Clone, Debug, PartialEq, Eq, Hash, Default)]
pub struct ReqAppView {
    pub id: String,
    pub version: String,
    pub fingerprint: Option<String>,
    pub cohort: [Option<String>; 3],
    /// (updatedisabled, sameversionupdate)
    pub updatecheck: Option<(bool, bool)>,
    /// (ad, rd)
    pub ping: Option<(Option<u64>, Option<u64>)>,
    pub events: Vec<EventJson>,
}

#[derive(Clone, Copy, Debug, PartialEq, Eq, Hash)]
pub enum ReqKind {
    UpdateCheck,
    Events,
    Ping,
    Other,
}

#[derive(Clone, Debug, PartialEq, Eq, Hash)]
pub struct ReqView {
    pub kind: ReqKind,
    pub session: Option<String>,
    pub request_id: Option<String>,
    pub install_source: String,
    pub interactivity: Option<String>,
    pub apps: Vec<ReqAppView>,
    /// cup2key "<id>:<nonce>" if present on the wire
    pub cup2key: Option<(u64, String)>,
}

#[derive(Clone, Debug, PartialEq)]
pub enum BodyView {
    /// a well-formed document; the structure is what it says
    Doc(XResp),
    /// certainly not a well-formed response document
    Unparseable,
    /// arbitrary bytes: the harness does not know whether they parse
    Unknown,
}

#[derive(Clone, Debug, PartialEq)]
pub enum HttpAnswer {
    Transport,
    Timeout,
    UserError,
    Response {
        status: u16,
        /// raw X-Retry-After header values, in order
        retry_after: Vec<Vec<u8>>,
        /// true iff no CUP handler is configured or the ETag is authentic for this exchange
        authentic: bool,
        forgery: Option<&'static str>,
        body: BodyView,
        body_bytes: Vec<u8>,
    },
}

#[derive(Clone, Debug, PartialEq)]
pub struct MetaView {
    pub body: Vec<u8>,
    pub key_id: u64,
    pub nonce: [u8; 32],
}

#[derive(Clone, Debug, PartialEq)]
pub enum MetricView {
    ResponseTime { successful: bool, dur: Duration },
    CheckInterval { dur: Duration, mono: bool, on_demand: bool },
    SuccessfulUpdateDuration(Duration),
    SuccessfulUpdateFromFirstSeen(Duration),
    FailedUpdateDuration(Duration),
    FailureReason(&'static str),
    RequestsPerCheck { count: u64, successful: bool },
    AttemptsToSuccessfulCheck(u64),
    AttemptsToSuccessfulInstall { count: u64, successful: bool },
    WaitedForReboot(Duration),
    FailedBootAttempts(u64),
    EventLost(EventJson),
}

#[derive(Clone, Debug, PartialEq, Eq, Hash)]
pub enum SVal {
    S(String),
    I(i64),
    B(bool),
}

#[derive(Clone, Copy, Debug, PartialEq, Eq, Hash)]
pub enum SOp {
    GetString,
    GetInt,
    GetBool,
    SetString,
    SetInt,
    SetBool,
    Remove,
    Commit,
}

#[derive(Clone, Debug, PartialEq)]
pub enum Op {
    /// a new state machine was built (life index) in continuous or one-shot mode
    Build { life: usize, oneshot: bool },
    NextTime { apps: Vec<AppView>, sched: SchedView, state: ProtoView, answer: TimingView },
    CheckAllowed { apps: Vec<AppView>, sched: SchedView, state: ProtoView, on_demand: bool, answer: CheckDecisionSpec },
    CanStart { plan_id: String, answer: u8 },
    RebootNeeded { plan_id: String, answer: bool },
    RebootAllowed { on_demand: bool, answer: bool },
    Http { n: usize, uri: String, method: String, headers: Vec<(String, Vec<u8>)>, body: Vec<u8>, view: Option<ReqView> },
    HttpDone { n: usize, answer: HttpAnswer },
    TimerUntil { id: usize, time: TimeView },
    TimerFor { id: usize, dur: Duration },
    TimerFired { id: usize },
    CreatePlan { params: ParamsView, meta: Option<MetaView>, body: Vec<u8>, signature: Option<Vec<u8>>, offered: usize, answer: Result<String, String> },
    Install { plan_id: String },
    /// `batch`: how many receive_progress calls were issued together with this one (1 = sequential)
    Progress { i: usize, value: f32, batch: usize },
    ProgressDone { i: usize },
    InstallDone { results: Vec<u8> },
    Reboot { ok: bool },
    Metric(MetricView),
    Storage { op: SOp, key: String, value: Option<SVal>, ok: bool },
    /// commit succeeded: index into the commit history
    Committed { snapshot: usize },
    Took(EventView),
    /// right after the consumer took an event (the generator is suspended in that emission): a shared mutex handed to
    /// the builder (app set, storage) was still locked by the state machine
    LockHeldAtEmission { which: &'static str },
    /// the embedder held the shared storage mutex during the poll that starts here
    EmbedderHoldsStorage,
    EmbedderHoldsAppSet,
    EmbedderChangedApps,
    StreamEnd,
    ControlIssue { req: usize, handle: usize, on_demand: bool },
    ControlReply { req: usize, reply: &'static str },
    HandleClone { from: usize, new: usize },
    HandleDrop { handle: usize },
    MachineDropped,
    Crash { at: usize },
    /// scheduler quiescence marker (scheduled mode)
    Quiescent,
    Clock { wall: i128, mono: i128 },
}

// ------------------------------------------------------------------------------------------
// script

#[derive(Clone, Debug, PartialEq, Default)]
pub struct AppSpec {
    pub id: String,
    /// 1-4 components
    pub version: Vec<u32>,
    pub fingerprint: Option<String>,
    /// embedder presets
    pub cohort: [Option<String>; 3],
    pub days: Option<u32>,
    /// extra request fields (keys never collide with protocol keys)
    pub extras: Vec<(String, String)>,
}

#[derive(Clone, Copy, Debug, PartialEq, Eq, Hash, Default)]
pub struct TimingSpec {
    /// 0 wall-only, 1 monotonic-only, 2 complex, 3 the same (absolute) timing as the previous answer
    pub kind: u8,
    pub delta_ms: u64,
    pub min_wait_ms: Option<u64>,
}

#[derive(Clone, Copy, Debug, PartialEq, Eq, Hash, Default)]
pub struct CheckDecisionSpec {
    /// 0 Ok, 1 OkUpdateDeferred, 2 TooSoon, 3 ThrottledByPolicy, 4 DeniedByPolicy
    pub kind: u8,
    /// None: echo the options' source
    pub source_on_demand: Option<bool>,
    pub proxies: bool,
    pub disable_updates: bool,
    pub same_version: bool,
}
impl CheckDecisionSpec {
    pub fn positive(&self) -> bool {
        self.kind <= 1
    }
}

#[derive(Clone, Debug, PartialEq)]
pub enum Auth {
    Authentic,
    NoEtag,
    Garbage(String),
    /// authentic signature over a different body
    OtherBody,
    /// signed with another registered key (by index into the client's key set) than the one the request names
    OtherRegisteredKey,
    UnregisteredKey,
    /// replay the whole genuine response of an earlier exchange (index among earlier genuine ones)
    ReplayResponse(usize),
    /// replay only the ETag of an earlier genuine exchange
    ReplayEtag(usize),
    /// the signature of an earlier genuine exchange (0 = the most recent) joined with THIS request's hash
    ReplaySignature(usize),
}

#[derive(Clone, Debug, PartialEq)]
pub enum RawBody {
    Empty,
    NotJson(Vec<u8>),
    /// a valid document cut strictly inside
    Truncated(XResp, u32),
    WrongShape(u8),
    /// anything at all: may or may not be a well-formed document (only used where no model is consulted)
    Arbitrary(Vec<u8>),
}

#[derive(Clone, Debug, PartialEq)]
pub enum BodySpec {
    /// "noupdate" for every app of the request
    DefaultNoUpdate,
    Doc(XResp, u64),
    Raw(RawBody),
}

#[derive(Clone, Debug, PartialEq)]
pub struct RespSpec {
    pub status: u16,
    pub retry_after: Vec<Vec<u8>>,
    pub retry_after_name_case: u8,
    pub body: BodySpec,
    pub auth: Auth,
    pub prefix: bool,
}

#[derive(Clone, Debug, PartialEq)]
pub enum HttpSpec {
    Transport,
    Timeout,
    UserError,
    Resp(RespSpec),
}

/// `InstallSpec::concurrent` value: the installer polls its last progress report once, drops it and finishes in the same poll
pub const IMPATIENT: u8 = 100;

#[derive(Clone, Debug, PartialEq, Default)]
pub struct InstallSpec {
    /// 0 installed, 1 deferred, 2 failed; padded with 0 / truncated to the number of offered apps
    pub results: Vec<u8>,
    pub progress: Vec<f32>,
    /// number of receive_progress calls kept in flight at once (0/1 = sequential)
    /// 0/1 = sequential reports, n = batches of n reports in flight at once, IMPATIENT = the last report is not awaited
    pub concurrent: u8,
}

#[derive(Clone, Debug, PartialEq, Default)]
pub struct FaultSpec {
    /// indices (in order of occurrence) of write/remove operations that fail
    pub fail_writes: Vec<usize>,
    /// indices of commits that fail
    pub fail_commits: Vec<usize>,
    /// every write to one of these keys fails
    pub fail_keys: Vec<String>,
    pub fail_all_writes: bool,
    pub fail_all_commits: bool,
}
impl FaultSpec {
    pub fn any(&self) -> bool {
        !self.fail_writes.is_empty() || !self.fail_commits.is_empty() || !self.fail_keys.is_empty() || self.fail_all_writes || self.fail_all_commits
    }
}

#[derive(Clone, Copy, Debug, PartialEq, Default)]
pub struct ClockStep {
    pub advance_ns: u64,
    /// absolute wall-clock value to jump to (ns from the epoch) before advancing
    pub wall_jump: Option<i128>,
}

#[derive(Clone, Debug, PartialEq)]
pub struct CupSpec {
    /// client key set: (id, pool key index); first is latest. The server holds the same keys.
    pub keys: Vec<(u64, usize)>,
}

#[derive(Clone, Debug, PartialEq)]
pub struct Script {
    pub apps: Vec<AppSpec>,
    pub system_app: usize,
    pub service_url: String,
    pub os_version: String,
    pub cup: Option<CupSpec>,
    pub storage_init: Vec<(String, SVal)>,
    pub timings: Vec<TimingSpec>,
    pub check_decisions: Vec<CheckDecisionSpec>,
    pub can_start: Vec<u8>,
    pub reboot_needed: Vec<bool>,
    /// (answer for background options, answer for on-demand options)
    pub reboot_allowed: Vec<(bool, bool)>,
    pub http: Vec<HttpSpec>,
    /// (creation succeeds, plan id index)
    pub plans: Vec<(bool, u8)>,
    pub installs: Vec<InstallSpec>,
    pub reboots: Vec<bool>,
    pub faults: FaultSpec,
    pub clock: Vec<ClockStep>,
    pub start_wall_ns: i128,
    pub metrics_fail: bool,
    pub log_enabled: bool,
    /// the embedder changes the shared app set between start() and the first poll of the stream: (app index, 0 = empty
    /// the id, 1 = set the version to 0)
    pub spoil_app_after_start: Option<(usize, u8)>,
    /// once the scripted HTTP answers are used up: false = every further request gets a genuine 200 'no update', true = the
    /// last scripted answer is given again and again (a server that keeps failing the same way)
    pub repeat_last_http: bool,
    /// the service URL was drawn from outside the URL grammar (construction failures are expected)
    pub junk_service_url: bool,
    /// bit k set: the embedder holds the shared storage mutex during the poll that follows the k-th (mod 32) event
    /// it took (an embedder writing its own keys in reaction to an event)
    pub busy_storage_mask: u32,
    /// the same for the shared app set mutex
    pub busy_app_set_mask: u32,
    /// the embedder changes the shared app set (cohort hint, day number of every app) when the n-th wait_for of a
    /// life is armed (n from 1): e.g. during the backoff between two attempts
    pub embedder_changes_apps_at_wait: Option<usize>,
    /// two bits per HTTP exchange (index mod 16): 0 no Content-Type header on the reply, 1 text/html, 2
    /// application/json, 3 TEXT/HTML plus Content-Length: 0 and a cache header
    pub content_type_mask: u32,
    /// (life, clock step of that life, ns): there the monotonic reading goes BACK by up to that many ns (a TimeSource
    /// need not be an OS clock): the third kind of inconsistent clocks the reboot report has to survive
    pub mono_back: Option<(usize, usize, u64)>,
    /// the consumer polls the event stream with a different waker each time (two wakers, alternating)
    pub switch_wakers: bool,
    /// when perform_install is called the embedder writes new versions into the shared app set
    pub embedder_bumps_versions_at_install: bool,
}

impl Default for Script {
    fn default() -> Self {
        Script {
            apps: vec![AppSpec { id: "app0".into(), version: vec![1], ..Default::default() }],
            system_app: 0,
            service_url: "http://omaha.test/".into(),
            os_version: "1.0".into(),
            cup: None,
            storage_init: vec![],
            timings: vec![],
            check_decisions: vec![],
            can_start: vec![],
            reboot_needed: vec![],
            reboot_allowed: vec![],
            http: vec![],
            plans: vec![],
            installs: vec![],
            reboots: vec![],
            faults: FaultSpec::default(),
            clock: vec![],
            start_wall_ns: 1_700_000_000_000_000_000,
            metrics_fail: false,
            log_enabled: false,
            spoil_app_after_start: None,
            repeat_last_http: false,
            junk_service_url: false,
            busy_storage_mask: 0,
            busy_app_set_mask: 0,
            embedder_changes_apps_at_wait: None,
            content_type_mask: 0,
            mono_back: None,
            switch_wakers: false,
            embedder_bumps_versions_at_install: false,
        }
    }
}

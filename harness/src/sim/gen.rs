//! Script generators: decode a tape into what the environment will answer.  0 is always the
//! simplest choice (default parameters, success, no fault).

use super::types::*;
use crate::cupref::POOL;
use crate::props::c01::gen_ids;
use crate::respgen::{gen_manifest, XApp, XResp, XUc};
use crate::tape::Tape;

#[derive(Clone, Debug)]
pub struct Profile {
    pub max_apps: usize,
    /// probability (num, den) that a CUP handler is configured
    pub cup: (u32, u32),
    pub max_http: usize,
    /// weights of per-request outcomes: [ok, transport, timeout, user error, http status, forged, unparseable]
    pub outcome_w: [u32; 7],
    /// weight of offering an update to an app in a generated document (out of 8)
    pub offer_w: u32,
    /// probability that an X-Retry-After header is present
    pub retry_after: (u32, u32),
    pub exotic_retry_after: bool,
    /// probability of each non-default policy answer
    pub negative_decisions: (u32, u32),
    pub odd_url: (u32, u32),
    /// probability of a service URL that is no URL at all (request construction fails); 0 = never drawn
    pub junk_url: (u32, u32),
    pub clock_jumps: bool,
    pub cohorts: bool,
}

impl Default for Profile {
    fn default() -> Self {
        Profile {
            max_apps: 3,
            cup: (1, 3),
            max_http: 14,
            outcome_w: [10, 2, 1, 1, 3, 2, 2],
            offer_w: 4,
            retry_after: (1, 6),
            exotic_retry_after: false,
            negative_decisions: (1, 6),
            odd_url: (0, 1),
            junk_url: (0, 1),
            clock_jumps: false,
            cohorts: true,
        }
    }
}

pub fn gen_opt_text(t: &mut Tape) -> Option<String> {
    match t.weighted(&[3, 1, 3]) {
        0 => None,
        1 => Some(String::new()),
        _ => Some(match t.choose(3) {
            0 => (*t.pick(&["stable", "beta", "1:3:", "canary-1"])).to_string(),
            _ => t.text(6),
        }),
    }
}

pub fn gen_apps(t: &mut Tape, p: &Profile) -> Vec<AppSpec> {
    let n = 1 + t.choose(p.max_apps.max(1));
    let apps = (0..n)
        .map(|i| AppSpec {
            id: match t.choose(4) {
                0 => format!("app{i}"),
                1 => format!("{{00000000-0000-0000-0000-00000000000{i}}}"),
                2 => format!("a\"{i}\\"),
                _ => format!("x{}-{i}", t.ident(4)),
            },
            version: {
                let n = 1 + t.choose(4);
                let mut v: Vec<u32> = (0..n).map(|_| t.u32_biased()).collect();
                if v.iter().all(|c| *c == 0) {
                    v[0] = 1;
                }
                v
            },
            fingerprint: t.option(|t| t.ident(6)),
            cohort: if p.cohorts { [gen_opt_text(t), gen_opt_text(t), gen_opt_text(t)] } else { [None, None, None] },
            days: if p.cohorts { t.option(|t| t.u32_biased()) } else { None },
            extras: if t.chance(1, 4) { (0..1 + t.choose(7)).map(|k| (format!("x-extra-{k}"), t.ident(5))).collect() } else { vec![] },
        })
        .collect::<Vec<_>>();
    // the packages of one product commonly share a version (their events then differ in nothing but the app they belong to)
    let mut apps = apps;
    if apps.len() > 1 && t.chance(1, 3) {
        let v = apps[0].version.clone();
        for a in apps.iter_mut().skip(1) {
            a.version = v.clone();
        }
    }
    apps
}

pub const RETRY_AFTER_EXOTIC: &[&[u8]] = &[
    b"", b" 5", b"5 ", b"+5", b"-5", b"5.0", b"0x10", b"1e3", b"five", b"\xe2\x80\x8b5", b"86400", b"86401", b"4294967295", b"4294967296",
    b"18446744073709551615", b"18446744073709551616", b"99999999999999999999999999999999", b"0000000000000000000000000000005", b"00", b"1 2", b"1,2", b"\t7",
    b"\xff\xfe", b"7\x80",
];

pub fn gen_retry_after_value(t: &mut Tape, exotic: bool) -> Vec<u8> {
    if exotic {
        match t.weighted(&[3, 4, 2, 2]) {
            0 => t.u64_biased().to_string().into_bytes(),
            1 => RETRY_AFTER_EXOTIC[t.choose(RETRY_AFTER_EXOTIC.len())].to_vec(),
            2 => {
                // long digit strings
                const D: &[char] = &['0', '1', '8', '9'];
                t.string_of(D, 40).into_bytes()
            }
            _ => {
                const A: &[char] = &['0', '5', '9', ' ', '+', '-', '.', 'a', '\t'];
                t.string_of(A, 6).into_bytes()
            }
        }
    } else {
        match t.choose(4) {
            0 => b"5".to_vec(),
            1 => t.choose(100_000).to_string().into_bytes(),
            2 => (*t.pick(&[86399u64, 86400, 86401, 0, 1, u32::MAX as u64 + 5, u64::MAX])).to_string().into_bytes(),
            _ => t.u64_biased().to_string().into_bytes(),
        }
    }
}

/// A response document naming any subset of the configured apps, in any order, possibly unknown ids.
pub fn gen_doc(t: &mut Tape, apps: &[AppSpec], p: &Profile) -> XResp {
    let mut out: Vec<XApp> = vec![];
    // choose the named apps: each configured app named with high probability; order rotated/reversed
    let mut idxs: Vec<usize> = (0..apps.len()).filter(|_| !t.chance(1, 6)).collect();
    match t.choose(3) {
        0 => {}
        1 => idxs.reverse(),
        _ => {
            if !idxs.is_empty() {
                let r = t.choose(idxs.len());
                idxs.rotate_left(r);
            }
        }
    }
    let unknown_pos = if t.chance(1, 6) { Some(t.choose(idxs.len() + 1)) } else { None };
    let mk = |t: &mut Tape, id: String| -> XApp {
        let status = match t.weighted(&[8, 1, 1, 1]) {
            0 => "ok".to_string(),
            1 => "restricted".to_string(),
            2 => "error-unknownApplication".to_string(),
            _ => "noupdate".to_string(),
        };
        let uc = match t.weighted(&[8u32.saturating_sub(p.offer_w).max(1), p.offer_w, 1, 1]) {
            0 => Some(XUc { status: "noupdate".into(), info: None, urls: None, manifest: None, extra: vec![] }),
            1 => Some(XUc {
                status: "ok".into(),
                info: None,
                urls: Some(vec!["http://pkg.test/".into()]),
                manifest: if t.chance(1, 5) {
                    None
                } else {
                    let mut m = gen_manifest(t);
                    m.version = match t.choose(3) {
                        0 => "2.0.0.0".into(),
                        1 => format!("{}.{}", 2 + t.choose(5), t.choose(10)),
                        _ => m.version,
                    };
                    Some(m)
                },
                extra: vec![],
            }),
            2 => Some(XUc { status: (*t.pick(&["error-osnotsupported", "restricted", "error-internal", "OK"])).to_string(), info: None, urls: None, manifest: None, extra: vec![] }),
            _ => None,
        };
        XApp {
            id,
            status,
            cohort: if p.cohorts { [gen_opt_text(t), gen_opt_text(t), gen_opt_text(t)] } else { [None, None, None] },
            ping: t.option(|_| "ok".to_string()),
            uc,
            events: None,
            extra: vec![],
        }
    };
    for (pos, i) in idxs.iter().enumerate() {
        if unknown_pos == Some(pos) {
            let u = t.choose(3);
            out.push(mk(t, format!("unknown-{u}")));
        }
        out.push(mk(t, apps[*i].id.clone()));
    }
    if unknown_pos == Some(idxs.len()) {
        out.push(mk(t, "unknown-9".to_string()));
    }
    XResp {
        protocol: "3.0".into(),
        server: t.option(|_| "prod".to_string()),
        daystart: match t.weighted(&[3, 1, 4]) {
            0 => None,
            1 => Some((None, Some(t.choose(86400) as u32))),
            _ => Some((Some(t.u32_biased()), t.option(|t| t.choose(86400) as u32))),
        },
        apps: out,
        junk: vec![],
    }
}

/// An ETag header value that is not an authentic one: either one of a few fixed shapes or a short sequence over the
/// tokens the ETag syntax is made of (quote, weak prefix, colon, hex and non-hex text, blanks, non-ASCII).
pub fn gen_garbage_etag(t: &mut Tape) -> String {
    const FIXED: [&str; 7] = ["", ":", "abc", "\"\"", "W/\"\"", "00:00", "zz:zz"];
    const TOK: [&str; 12] = ["\"", "W/", ":", "0", "a", "3045", "zz", " ", "\t", "w/", "é", "/"];
    if t.flag() {
        (*t.pick(&FIXED)).to_string()
    } else {
        let n = 1 + t.choose(5);
        (0..n).map(|_| *t.pick(&TOK)).collect()
    }
}

pub fn gen_auth(t: &mut Tape) -> Auth {
    match t.choose(8) {
        0 => Auth::NoEtag,
        1 => Auth::Garbage(gen_garbage_etag(t)),
        2 => Auth::OtherBody,
        3 => Auth::OtherRegisteredKey,
        4 => Auth::UnregisteredKey,
        5 => Auth::ReplayResponse(t.choose(8)),
        6 => Auth::ReplayEtag(t.choose(8)),
        _ => Auth::ReplaySignature(t.choose(3)),
    }
}

pub fn gen_status(t: &mut Tape, class: usize) -> u16 {
    // half the time a familiar code of the class, otherwise any code of it (the last class also holds the codes above
    // 599, which `http::StatusCode` accepts up to 999)
    let familiar = t.flag();
    match class {
        0 if familiar => *t.pick(&[200u16, 200, 201, 204, 299]),
        0 => 200 + t.choose(100) as u16,
        1 if familiar => *t.pick(&[300u16, 301, 304, 399]),
        1 => 300 + t.choose(100) as u16,
        2 if familiar => *t.pick(&[400u16, 403, 404, 429, 499]),
        2 => 400 + t.choose(100) as u16,
        3 if familiar => *t.pick(&[500u16, 502, 503, 599]),
        3 => 500 + t.choose(100) as u16,
        _ if familiar => *t.pick(&[100u16, 101, 199, 600, 999]),
        _ => {
            if t.flag() {
                100 + t.choose(100) as u16
            } else {
                600 + t.choose(400) as u16
            }
        }
    }
}

pub fn gen_http(t: &mut Tape, apps: &[AppSpec], p: &Profile, cup: bool) -> HttpSpec {
    let kind = t.weighted(&p.outcome_w);
    let retry_after = |t: &mut Tape| -> Vec<Vec<u8>> {
        if t.chance(p.retry_after.0, p.retry_after.1) {
            let n = if p.exotic_retry_after && t.chance(1, 8) { 2 } else { 1 };
            (0..n).map(|_| gen_retry_after_value(t, p.exotic_retry_after)).collect()
        } else {
            vec![]
        }
    };
    match kind {
        0 => HttpSpec::Resp(RespSpec {
            status: if t.chance(1, 8) { gen_status(t, 0) } else { 200 },
            retry_after: retry_after(t),
            retry_after_name_case: t.weighted(&[3, 2, 2, 1, 1]) as u8,
            body: if t.chance(1, 5) { BodySpec::DefaultNoUpdate } else { BodySpec::Doc(gen_doc(t, apps, p), t.u64_full()) },
            auth: Auth::Authentic,
            prefix: t.chance(1, 5),
        }),
        1 => HttpSpec::Transport,
        2 => HttpSpec::Timeout,
        3 => HttpSpec::UserError,
        4 => HttpSpec::Resp(RespSpec {
            status: {
                let c = 1 + t.choose(4);
                gen_status(t, c)
            },
            retry_after: retry_after(t),
            retry_after_name_case: t.weighted(&[3, 2, 2, 1, 1]) as u8,
            body: if t.flag() { BodySpec::Raw(RawBody::Empty) } else { BodySpec::Doc(gen_doc(t, apps, p), t.u64_full()) },
            auth: Auth::Authentic,
            prefix: false,
        }),
        5 if cup => {
            // forged: make it tempting
            let mut tempting = p.clone();
            tempting.offer_w = 7;
            HttpSpec::Resp(RespSpec {
                status: if t.chance(1, 3) {
                    let c = t.choose(5);
                    gen_status(t, c)
                } else {
                    200
                },
                retry_after: if t.chance(2, 3) { vec![gen_retry_after_value(t, false)] } else { vec![] },
                retry_after_name_case: 0,
                body: BodySpec::Doc(gen_doc(t, apps, &tempting), t.u64_full()),
                auth: gen_auth(t),
                prefix: false,
            })
        }
        5 => HttpSpec::Transport,
        _ => HttpSpec::Resp(RespSpec {
            status: 200,
            retry_after: retry_after(t),
            retry_after_name_case: 0,
            body: BodySpec::Raw(match t.choose(4) {
                0 => RawBody::Empty,
                1 => RawBody::NotJson(t.bytes(12)),
                2 => RawBody::Truncated(gen_doc(t, apps, p), t.raw()),
                _ => RawBody::WrongShape(t.choose(5) as u8),
            }),
            auth: Auth::Authentic,
            prefix: t.chance(1, 6),
        }),
    }
}

pub fn gen_decision(t: &mut Tape, p: &Profile) -> CheckDecisionSpec {
    let kind = if t.chance(p.negative_decisions.0, p.negative_decisions.1) { 2 + t.choose(3) as u8 } else { t.weighted(&[4, 1]) as u8 };
    CheckDecisionSpec {
        kind,
        source_on_demand: match t.weighted(&[4, 1, 1]) {
            0 => None,
            1 => Some(true),
            _ => Some(false),
        },
        proxies: t.flag(),
        disable_updates: t.chance(1, 4),
        same_version: t.chance(1, 4),
    }
}

pub fn gen_script(t: &mut Tape, p: &Profile) -> Script {
    let apps = gen_apps(t, p);
    let cup = if t.chance(p.cup.0, p.cup.1) {
        let nk = 1 + t.choose(3);
        let ids = gen_ids(t, nk);
        let first = t.choose(POOL);
        Some(CupSpec { keys: ids.iter().enumerate().map(|(i, id)| (*id, (first + i) % POOL)).collect() })
    } else {
        None
    };
    let nhttp = t.choose(p.max_http + 1);
    let http = (0..nhttp).map(|_| gen_http(t, &apps, p, cup.is_some())).collect();
    let ndec = t.choose(6);
    let mut s = Script {
        system_app: t.choose(apps.len()),
        service_url: if t.chance(p.odd_url.0, p.odd_url.1) { crate::urlref::gen_url(t).text } else { "http://omaha.test/".into() },
        os_version: (*t.pick(&["1.0", "2.0.0.0", "0.1.2.3"])).to_string(),
        cup,
        storage_init: vec![],
        timings: t.vec_of(4, |t| TimingSpec {
            kind: t.weighted(&[3, 3, 3, 2]) as u8,
            delta_ms: if t.chance(1, 4) { t.choose(200_000_000) as u64 } else { *t.pick(&[3_600_000u64, 0, 1, 1000, 86_400_000]) },
            min_wait_ms: t.option(|t| if t.chance(1, 4) { 1_800_001 + t.choose(10_000_000) as u64 } else { *t.pick(&[0u64, 1, 1000, 60_000]) }),
        }),
        check_decisions: (0..ndec).map(|_| gen_decision(t, p)).collect(),
        can_start: t.vec_of(4, |t| t.weighted(&[5, 1, 1]) as u8),
        reboot_needed: t.vec_of(4, |t| t.flag()),
        reboot_allowed: t.vec_of(6, |t| (t.flag(), !t.chance(1, 4))),
        http,
        plans: t.vec_of(4, |t| (!t.chance(1, 5), t.choose(3) as u8)),
        installs: t.vec_of(4, |t| InstallSpec { results: t.vec_of(4, |t| t.weighted(&[4, 1, 2]) as u8), progress: t.vec_of(4, |t| t.choose(101) as f32 / 100.0), concurrent: match t.weighted(&[6, 2, 1]) { 0 => 0, 1 => 2, _ => IMPATIENT } }),
        reboots: t.vec_of(3, |t| !t.chance(1, 4)),
        faults: FaultSpec::default(),
        clock: if p.clock_jumps {
            t.vec_of(12, |t| ClockStep {
                advance_ns: if t.chance(1, 4) { t.u32_biased() as u64 * 977 } else { *t.pick(&[1_000_003u64, 0, 1, 999, 1_000_000_000, 3_600_000_000_000]) },
                wall_jump: if t.chance(1, 3) { Some(gen_wall_jump(t)) } else { None },
            })
        } else {
            t.vec_of(6, |t| ClockStep { advance_ns: if t.chance(1, 4) { 1 + t.u32_biased() as u64 * 977 } else { *t.pick(&[1_000_003u64, 1, 999, 1_000_000, 1_000_000_000, 60_000_000_000]) }, wall_jump: None })
        },
        apps,
        start_wall_ns: 1_700_000_000_000_000_000 + t.choose(1000) as i128,
        metrics_fail: t.chance(1, 10),
        log_enabled: false,
        spoil_app_after_start: None,
        repeat_last_http: false,
        junk_service_url: false,
        busy_storage_mask: 0,
        busy_app_set_mask: 0,
        embedder_changes_apps_at_wait: None,
        content_type_mask: 0,
        mono_back: None,
        switch_wakers: false,
        embedder_bumps_versions_at_install: false,
    };
    if p.junk_url.0 > 0 && t.chance(p.junk_url.0, p.junk_url.1) {
        s.service_url = gen_junk_url(t);
        s.junk_service_url = true;
    }
    s
}

/// A service URL outside the URL grammar: the request cannot be constructed (or, for the few texts the http crate
/// happens to accept, is sent somewhere odd).
pub fn gen_junk_url(t: &mut Tape) -> String {
    match t.choose(6) {
        0 => String::new(),
        1 => "not a url".into(),
        2 => "http://".into(),
        3 => "http://h/\u{e9}".into(),
        4 => format!("http://h/{}", "a".repeat(70000)),
        _ => t.text(12),
    }
}

pub fn gen_wall_jump(t: &mut Tape) -> i128 {
    match t.choose(6) {
        0 => 0,
        1 => -(t.range(1, 4_000_000_000) as i128) * 1_000_000_000 - t.choose(1000) as i128,
        2 => t.range(0, 4_000_000_000) as i128 * 1_000_000_000,
        3 => (i64::MAX as i128) * 1000 - t.range(0, 2_000_000) as i128,
        4 => (i64::MIN as i128) * 1000 + t.range(0, 2_000_000) as i128,
        _ => 1_700_000_000_000_000_000 - t.range(0, 86_400_000_000_000) as i128,
    }
}

//! The simulated world: every public trait of the library implemented over one shared `World`
//! that holds the script, the op log, the clock, the gates and the storage model.

use super::types::*;
use crate::cupref;
use crate::engine::lock;
use crate::jsongen;
use crate::respgen::{self, XApp, XResp, XUc};
use futures::future::{BoxFuture, LocalBoxFuture};
use futures::prelude::*;
use omaha_client::{
    app_set::AppSet,
    common::{App, CheckOptions, CheckTiming, ProtocolState, UpdateCheckSchedule, UserCounting},
    cup_ecdsa::RequestMetadata,
    http_request::{mock_errors, Error as HttpError, HttpRequest},
    installer::{AppInstallResult, Installer, Plan, ProgressObserver},
    metrics::{ClockType, Metrics, MetricsReporter, UpdateCheckFailureReason},
    policy::{CheckDecision, PolicyEngine, UpdateDecision},
    protocol::{
        request::{Event, InstallSource},
        response::{OmahaStatus, Response},
        Cohort,
    },
    request_builder::RequestParams,
    storage::Storage,
    time::{ComplexTime, PartialComplexTime, TimeSource, Timer},
    version::Version,
};
use serde_json::Value;
use std::{
    collections::BTreeMap,
    pin::Pin,
    sync::{Arc, Mutex, OnceLock},
    task::{Context, Poll, Waker},
    time::{Duration, Instant, SystemTime},
};

pub type W = Arc<Mutex<World>>;

// ------------------------------------------------------------------------------------------
// time

pub fn base_instant() -> Instant {
    static B: OnceLock<Instant> = OnceLock::new();
    *B.get_or_init(|| Instant::now() + Duration::from_secs(1_000_000_000))
}
pub fn wall_from_ns(ns: i128) -> SystemTime {
    const NS: u128 = 1_000_000_000;
    let mag = ns.unsigned_abs();
    let d = Duration::new((mag / NS).min(u64::MAX as u128 / 4) as u64, (mag % NS) as u32);
    if ns < 0 {
        SystemTime::UNIX_EPOCH.checked_sub(d).unwrap_or(SystemTime::UNIX_EPOCH)
    } else {
        SystemTime::UNIX_EPOCH.checked_add(d).unwrap_or(SystemTime::UNIX_EPOCH)
    }
}
pub fn ns_of_wall(t: SystemTime) -> i128 {
    match t.duration_since(SystemTime::UNIX_EPOCH) {
        Ok(d) => d.as_nanos() as i128,
        Err(e) => -(e.duration().as_nanos() as i128),
    }
}
pub fn mono_from_ns(ns: i128) -> Instant {
    if ns >= 0 {
        base_instant() + Duration::from_nanos(ns as u64)
    } else {
        base_instant() - Duration::from_nanos((-ns) as u64)
    }
}
pub fn ns_of_mono(i: Instant) -> i128 {
    if i >= base_instant() {
        (i - base_instant()).as_nanos() as i128
    } else {
        -((base_instant() - i).as_nanos() as i128)
    }
}
pub fn time_view(p: PartialComplexTime) -> TimeView {
    let (w, m) = p.destructure();
    TimeView { wall: w.map(ns_of_wall), mono: m.map(ns_of_mono) }
}
pub fn sched_view(s: &UpdateCheckSchedule) -> SchedView {
    SchedView {
        last_update_time: s.last_update_time.map(time_view),
        last_check_time: s.last_update_check_time.map(time_view),
        next_update: s.next_update_time.map(|t| TimingView { time: time_view(t.time), min_wait: t.minimum_wait }),
    }
}
pub fn proto_view(p: &ProtocolState) -> ProtoView {
    ProtoView { poll: p.server_dictated_poll_interval, failures: p.consecutive_failed_update_checks, proxied: p.consecutive_proxied_requests }
}
pub fn app_view(a: &App) -> AppView {
    let UserCounting::ClientRegulatedByDate(days) = a.user_counting;
    AppView {
        id: a.id.clone(),
        version: a.version.to_string(),
        fingerprint: a.fingerprint.clone(),
        cohort: [a.cohort.id.clone(), a.cohort.hint.clone(), a.cohort.name.clone()],
        days,
    }
}
pub fn params_view(p: &RequestParams) -> ParamsView {
    ParamsView {
        on_demand: p.source == InstallSource::OnDemand,
        proxies: p.use_configured_proxies,
        disable_updates: p.disable_updates,
        same_version: p.offer_update_if_same_version,
    }
}
pub fn event_json_of(e: &Event) -> EventJson {
    // through the wire encoding, which is what the metric's consumer would see
    let v = serde_json::to_value(e).unwrap_or(Value::Null);
    event_json(&v)
}
pub fn event_json(v: &Value) -> EventJson {
    EventJson {
        event_type: v["eventtype"].as_i64().unwrap_or(-1),
        event_result: v["eventresult"].as_i64().unwrap_or(-1),
        errorcode: v.get("errorcode").and_then(|x| x.as_i64()),
        previous_version: v.get("previousversion").and_then(|x| x.as_str()).map(|s| s.to_string()),
        next_version: v.get("nextversion").and_then(|x| x.as_str()).map(|s| s.to_string()),
        download_time_ms: v.get("download_time_ms").and_then(|x| x.as_u64()),
    }
}

// ------------------------------------------------------------------------------------------
// world

#[derive(Default)]
pub struct Gate {
    pub open: bool,
    pub waker: Option<Waker>,
    pub label: GateLabel,
    /// opened at creation although the world is gated (ping-storm mode): fires, and is logged, when first polled
    pub auto: bool,
}
#[derive(Clone, Debug, PartialEq, Default)]
pub enum GateLabel {
    #[default]
    None,
    TimerUntil(usize),
    TimerFor(usize, Duration),
    Http(usize),
    Plan,
    Progress(usize),
    Install,
    Reboot,
}

#[derive(Default, Clone, Debug)]
pub struct Cursors {
    pub timings: usize,
    pub check_decisions: usize,
    pub can_start: usize,
    pub reboot_needed: usize,
    pub reboot_allowed: usize,
    pub http: usize,
    pub plans: usize,
    pub installs: usize,
    pub reboots: usize,
    pub clock: usize,
    pub writes: usize,
    pub commits: usize,
    pub timers: usize,
}

#[derive(Clone, Debug, Default, PartialEq)]
pub struct StorageModel {
    pub committed: BTreeMap<String, SVal>,
    /// overlay: None = removed
    pub pending: BTreeMap<String, Option<SVal>>,
    /// committed state after every successful commit
    pub history: Vec<BTreeMap<String, SVal>>,
}
impl StorageModel {
    pub fn get(&self, k: &str) -> Option<&SVal> {
        match self.pending.get(k) {
            Some(v) => v.as_ref(),
            None => self.committed.get(k),
        }
    }
    pub fn commit(&mut self) -> usize {
        for (k, v) in std::mem::take(&mut self.pending) {
            match v {
                Some(v) => {
                    self.committed.insert(k, v);
                }
                None => {
                    self.committed.remove(&k);
                }
            }
        }
        self.history.push(self.committed.clone());
        self.history.len() - 1
    }
    pub fn crash(&mut self) {
        self.pending.clear();
    }
}

/// a genuine exchange remembered for replay forgeries
#[derive(Clone, Debug)]
pub struct Genuine {
    pub status: u16,
    pub etag: String,
    pub body: Vec<u8>,
    pub retry_after: Vec<Vec<u8>>,
}

/// The op log with the simulated clock reading at every entry.
#[derive(Default, Clone)]
pub struct Log {
    pub ops: Vec<Op>,
    /// (wall ns, mono ns) when the entry was appended
    pub stamps: Vec<(i128, i128)>,
    pub now: (i128, i128),
}
impl Log {
    pub fn push(&mut self, op: Op) {
        self.ops.push(op);
        self.stamps.push(self.now);
    }
}
impl std::ops::Deref for Log {
    type Target = Vec<Op>;
    fn deref(&self) -> &Vec<Op> {
        &self.ops
    }
}

pub struct World {
    pub script: Script,
    pub log: Log,
    pub wall_ns: i128,
    pub mono_ns: i128,
    pub gates: Vec<Gate>,
    /// eager: every gate opens the moment it is created
    pub eager: bool,
    pub ping_storm: bool,
    pub interactions: usize,
    /// interactions since this life's state machine was built, and whether it exceeded RUNAWAY_INTERACTIONS
    pub life_interactions: usize,
    /// wait_for calls of the current life
    pub waits_for: usize,
    /// clock-advancing interactions of the current life
    pub life_clock: usize,
    pub runaway: bool,
    pub crash_at: Option<usize>,
    pub crashed: bool,
    pub storage: StorageModel,
    pub cur: Cursors,
    pub genuine: Vec<Genuine>,
    pub life: usize,
    pub http_n: usize,
    pub last_timing: Option<CheckTiming>,
}

/// no generated life comes near this many environment interactions (a few hundred at most)
pub const RUNAWAY_INTERACTIONS: usize = 50_000;

impl World {
    pub fn new(script: Script) -> World {
        let mut storage = StorageModel::default();
        for (k, v) in &script.storage_init {
            storage.committed.insert(k.clone(), v.clone());
        }
        storage.history.push(storage.committed.clone());
        World {
            wall_ns: script.start_wall_ns,
            mono_ns: 0,
            log: Log { ops: vec![], stamps: vec![], now: (script.start_wall_ns, 0) },
            script,
            gates: vec![],
            eager: true,
            interactions: 0,
            life_interactions: 0,
            waits_for: 0,
            life_clock: 0,
            runaway: false,
            ping_storm: false,
            crash_at: None,
            crashed: false,
            storage,
            cur: Cursors::default(),
            genuine: vec![],
            life: 0,
            http_n: 0,
            last_timing: None,
        }
    }
    pub fn now(&self) -> ComplexTime {
        ComplexTime { wall: wall_from_ns(self.wall_ns), mono: mono_from_ns(self.mono_ns) }
    }
    /// Count one environment interaction; returns true if the process "dies" here.
    fn interact(&mut self, advances_clock: bool) -> bool {
        if self.crashed || self.runaway {
            return true;
        }
        self.interactions += 1;
        // a state machine that keeps calling its environment without ever finishing a check (an unbounded retry loop)
        // would otherwise spin inside one poll for ever: park it and let the driver report the run as not terminating
        self.life_interactions += 1;
        if self.life_interactions > RUNAWAY_INTERACTIONS {
            self.runaway = true;
            return true;
        }
        if self.crash_at == Some(self.interactions) {
            self.crashed = true;
            self.log.push(Op::Crash { at: self.interactions });
            return true;
        }
        if advances_clock {
            let step = self.script.clock.get(self.cur.clock).copied().unwrap_or(ClockStep { advance_ns: 1_000_003, wall_jump: None });
            self.cur.clock += 1;
            if let Some(j) = step.wall_jump {
                self.wall_ns = j;
            }
            self.mono_ns += step.advance_ns as i128;
            self.wall_ns += step.advance_ns as i128;
            let mut stepped_back = false;
            self.life_clock += 1;
            if let Some((life, at, back)) = self.script.mono_back {
                if life + 1 == self.life && at + 1 == self.life_clock {
                    self.mono_ns -= (back as i128).min(self.mono_ns.max(0));
                    stepped_back = true;
                }
            }
            self.log.now = (self.wall_ns, self.mono_ns);
            if step.wall_jump.is_some() || stepped_back {
                self.log.push(Op::Clock { wall: self.wall_ns, mono: self.mono_ns });
            }
        }
        false
    }
    fn new_gate(&mut self, label: GateLabel) -> usize {
        let id = self.gates.len();
        // ping-storm mode (scheduled driver, reboot wait): the ping timers - every timer but the 30-minute reboot
        // re-check - are due the moment they are armed, as with a policy whose next ping time is always "now"
        let auto = !self.eager
            && self.ping_storm
            && match &label {
                GateLabel::TimerUntil(_) => true,
                GateLabel::TimerFor(_, d) => *d != Duration::from_secs(30 * 60),
                _ => false,
            };
        self.gates.push(Gate { open: self.eager || auto, waker: None, label, auto });
        id
    }
    pub fn pending_gates(&self) -> Vec<(usize, GateLabel)> {
        self.gates.iter().enumerate().filter(|(_, g)| !g.open).map(|(i, g)| (i, g.label.clone())).collect()
    }
}

/// How far the simulated clock moves when a wait_for(d) timer fires: d rounded to whole seconds, so that the
/// library's random backoff draws (which cannot be seeded) do not make the clock differ between two runs.
/// The minimum wait a TimingSpec stands for: milliseconds, except for the three largest values, which stand for the
/// 'effectively for ever' durations a policy may return (they do not fit any Instant or SystemTime when added).
pub fn min_wait_of(m: u64) -> Duration {
    match m {
        u64::MAX => Duration::MAX,
        0xffff_ffff_ffff_fffe => Duration::from_secs(u64::MAX),
        0xffff_ffff_ffff_fffd => Duration::from_secs(1 << 63),
        _ => Duration::from_millis(m),
    }
}

pub fn timer_advance(d: Duration) -> i128 {
    let ms = d.min(Duration::from_secs(86_400)).as_millis() as i128;
    ((ms + 500) / 1000) * 1_000_000_000
}

pub fn open_gate(w: &W, id: usize) {
    let waker = {
        let mut g = lock(w);
        let gate = &mut g.gates[id];
        gate.open = true;
        let label = gate.label.clone();
        let wk = gate.waker.take();
        match label {
            GateLabel::TimerUntil(t) => g.log.push(Op::TimerFired { id: t }),
            GateLabel::TimerFor(t, d) => {
                // the clock moves first: the log entry carries the time at which the timer fired
                let adv = timer_advance(d);
                g.mono_ns += adv;
                g.wall_ns += adv;
                g.log.now = (g.wall_ns, g.mono_ns);
                g.log.push(Op::TimerFired { id: t });
            }
            _ => {}
        }
        wk
    };
    if let Some(wk) = waker {
        wk.wake();
    }
}

pub struct GateFut {
    w: W,
    id: Option<usize>,
    /// never completes (crashed process)
    dead: bool,
    fired_logged: bool,
}
impl Future for GateFut {
    type Output = ();
    fn poll(mut self: Pin<&mut Self>, cx: &mut Context<'_>) -> Poll<()> {
        if self.dead {
            return Poll::Pending;
        }
        let Some(id) = self.id else { return Poll::Ready(()) };
        let mut g = lock(&self.w);
        if g.crashed {
            return Poll::Pending;
        }
        if g.gates[id].open {
            if (g.eager || g.gates[id].auto) && !self.fired_logged {
                // eager gates "fire" when first polled
                let label = g.gates[id].label.clone();
                match label {
                    GateLabel::TimerUntil(t) => g.log.push(Op::TimerFired { id: t }),
                    GateLabel::TimerFor(t, d) => {
                        let adv = timer_advance(d);
                        g.mono_ns += adv;
                        g.wall_ns += adv;
                        g.log.now = (g.wall_ns, g.mono_ns);
                        g.log.push(Op::TimerFired { id: t });
                    }
                    _ => {}
                }
                drop(g);
                self.fired_logged = true;
            }
            Poll::Ready(())
        } else {
            g.gates[id].waker = Some(cx.waker().clone());
            Poll::Pending
        }
    }
}
fn gate(w: &W, label: GateLabel) -> GateFut {
    let mut g = lock(w);
    if g.crashed {
        return GateFut { w: w.clone(), id: None, dead: true, fired_logged: false };
    }
    let id = g.new_gate(label);
    GateFut { w: w.clone(), id: Some(id), dead: false, fired_logged: false }
}
fn dead() -> future::Pending<()> {
    future::pending()
}

// ------------------------------------------------------------------------------------------
// TimeSource

#[derive(Clone)]
pub struct SimTime(pub W);
impl TimeSource for SimTime {
    fn now_in_walltime(&self) -> SystemTime {
        lock(&self.0).now().wall
    }
    fn now_in_monotonic(&self) -> Instant {
        lock(&self.0).now().mono
    }
    fn now(&self) -> ComplexTime {
        lock(&self.0).now()
    }
}

// ------------------------------------------------------------------------------------------
// PolicyEngine

pub struct SimPlan {
    pub id: String,
    pub offered: usize,
}
impl Plan for SimPlan {
    fn id(&self) -> String {
        self.id.clone()
    }
}

pub struct SimPolicy(pub W, pub SimTime);

impl PolicyEngine for SimPolicy {
    type TimeSource = SimTime;
    type InstallResult = ();
    type InstallPlan = SimPlan;

    fn time_source(&self) -> &SimTime {
        &self.1
    }

    fn compute_next_update_time<'a>(&'a mut self, apps: &'a [App], scheduling: &'a UpdateCheckSchedule, protocol_state: &'a ProtocolState) -> BoxFuture<'a, CheckTiming> {
        let mut g = lock(&self.0);
        if g.interact(true) {
            return dead().map(|_| unreachable!()).boxed();
        }
        let spec = g.script.timings.get(g.cur.timings).copied().unwrap_or(TimingSpec { kind: 2, delta_ms: 3_600_000, min_wait_ms: None });
        g.cur.timings += 1;
        let now = g.now();
        let d = Duration::from_millis(spec.delta_ms);
        let time = match spec.kind {
            0 => PartialComplexTime::Wall(now.wall + d),
            1 => PartialComplexTime::Monotonic(now.mono + d),
            _ => PartialComplexTime::Complex(ComplexTime { wall: now.wall + d, mono: now.mono + d }),
        };
        let mut timing = match spec.min_wait_ms {
            Some(m) => CheckTiming::builder().time(time).minimum_wait(min_wait_of(m)).build(),
            None => CheckTiming::builder().time(time).build(),
        };
        // a policy that derives the next check time from persisted state returns the very same timing again
        // (e.g. after a throttled request)
        if spec.kind == 3 {
            if let Some(prev) = g.last_timing {
                timing = prev;
            }
        }
        g.last_timing = Some(timing);
        let time = timing.time;
        let answer = TimingView { time: time_view(time), min_wait: timing.minimum_wait };
        g.log.push(Op::NextTime { apps: apps.iter().map(app_view).collect(), sched: sched_view(scheduling), state: proto_view(protocol_state), answer });
        future::ready(timing).boxed()
    }

    fn update_check_allowed<'a>(&'a mut self, apps: &'a [App], scheduling: &'a UpdateCheckSchedule, protocol_state: &'a ProtocolState, check_options: &'a CheckOptions) -> BoxFuture<'a, CheckDecision> {
        let mut g = lock(&self.0);
        if g.interact(true) {
            return dead().map(|_| unreachable!()).boxed();
        }
        let on_demand = check_options.source == InstallSource::OnDemand;
        let spec = g.script.check_decisions.get(g.cur.check_decisions).copied().unwrap_or(CheckDecisionSpec { proxies: false, ..Default::default() });
        g.cur.check_decisions += 1;
        let od = spec.source_on_demand.unwrap_or(on_demand);
        let params = RequestParams {
            source: if od { InstallSource::OnDemand } else { InstallSource::ScheduledTask },
            use_configured_proxies: spec.proxies,
            disable_updates: spec.disable_updates,
            offer_update_if_same_version: spec.same_version,
        };
        let decision = match spec.kind {
            0 => CheckDecision::Ok(params),
            1 => CheckDecision::OkUpdateDeferred(params),
            2 => CheckDecision::TooSoon,
            3 => CheckDecision::ThrottledByPolicy,
            _ => CheckDecision::DeniedByPolicy,
        };
        let mut answer = spec;
        answer.source_on_demand = Some(od);
        g.log.push(Op::CheckAllowed { apps: apps.iter().map(app_view).collect(), sched: sched_view(scheduling), state: proto_view(protocol_state), on_demand, answer });
        future::ready(decision).boxed()
    }

    fn update_can_start<'a>(&'a mut self, proposed_install_plan: &'a SimPlan) -> BoxFuture<'a, UpdateDecision> {
        let mut g = lock(&self.0);
        if g.interact(true) {
            return dead().map(|_| unreachable!()).boxed();
        }
        let a = g.script.can_start.get(g.cur.can_start).copied().unwrap_or(0);
        g.cur.can_start += 1;
        g.log.push(Op::CanStart { plan_id: proposed_install_plan.id.clone(), answer: a });
        future::ready(match a {
            0 => UpdateDecision::Ok,
            1 => UpdateDecision::DeferredByPolicy,
            _ => UpdateDecision::DeniedByPolicy,
        })
        .boxed()
    }

    fn reboot_allowed<'a>(&'a mut self, check_options: &'a CheckOptions, _install_result: &'a ()) -> BoxFuture<'a, bool> {
        let mut g = lock(&self.0);
        if g.interact(true) {
            return dead().map(|_| unreachable!()).boxed();
        }
        let on_demand = check_options.source == InstallSource::OnDemand;
        let (bg, od) = g.script.reboot_allowed.get(g.cur.reboot_allowed).copied().unwrap_or((true, true));
        g.cur.reboot_allowed += 1;
        let answer = if on_demand { od } else { bg };
        g.log.push(Op::RebootAllowed { on_demand, answer });
        future::ready(answer).boxed()
    }

    fn reboot_needed<'a>(&'a mut self, install_plan: &'a SimPlan) -> BoxFuture<'a, bool> {
        let mut g = lock(&self.0);
        if g.interact(true) {
            return dead().map(|_| unreachable!()).boxed();
        }
        let a = g.script.reboot_needed.get(g.cur.reboot_needed).copied().unwrap_or(false);
        g.cur.reboot_needed += 1;
        g.log.push(Op::RebootNeeded { plan_id: install_plan.id.clone(), answer: a });
        future::ready(a).boxed()
    }
}

// ------------------------------------------------------------------------------------------
// Timer

pub struct SimTimer(pub W);
impl Timer for SimTimer {
    fn wait_until(&mut self, time: impl Into<PartialComplexTime>) -> BoxFuture<'static, ()> {
        let time = time.into();
        let id = {
            let mut g = lock(&self.0);
            if g.interact(true) {
                return dead().boxed();
            }
            let id = g.cur.timers;
            g.cur.timers += 1;
            g.log.push(Op::TimerUntil { id, time: time_view(time) });
            id
        };
        gate(&self.0, GateLabel::TimerUntil(id)).boxed()
    }
    fn wait_for(&mut self, duration: Duration) -> BoxFuture<'static, ()> {
        let id = {
            let mut g = lock(&self.0);
            if g.interact(true) {
                return dead().boxed();
            }
            let id = g.cur.timers;
            g.cur.timers += 1;
            g.log.push(Op::TimerFor { id, dur: duration });
            g.waits_for += 1;
            if g.script.embedder_changes_apps_at_wait == Some(g.waits_for) && embedder_changes_apps() {
                g.log.push(Op::EmbedderChangedApps);
            }
            id
        };
        gate(&self.0, GateLabel::TimerFor(id, duration)).boxed()
    }
}

// ------------------------------------------------------------------------------------------
// Metrics

pub struct SimMetrics(pub W);
impl MetricsReporter for SimMetrics {
    fn report_metrics(&mut self, metrics: Metrics) -> Result<(), anyhow::Error> {
        let mut g = lock(&self.0);
        if g.interact(true) {
            return Ok(());
        }
        let v = match metrics {
            Metrics::UpdateCheckResponseTime { response_time, successful } => MetricView::ResponseTime { successful, dur: response_time },
            Metrics::UpdateCheckInterval { interval, clock, install_source } => {
                MetricView::CheckInterval { dur: interval, mono: clock == ClockType::Monotonic, on_demand: install_source == InstallSource::OnDemand }
            }
            Metrics::SuccessfulUpdateDuration(d) => MetricView::SuccessfulUpdateDuration(d),
            Metrics::SuccessfulUpdateFromFirstSeen(d) => MetricView::SuccessfulUpdateFromFirstSeen(d),
            Metrics::FailedUpdateDuration(d) => MetricView::FailedUpdateDuration(d),
            Metrics::UpdateCheckFailureReason(r) => MetricView::FailureReason(match r {
                UpdateCheckFailureReason::Omaha => "omaha",
                UpdateCheckFailureReason::Network => "network",
                UpdateCheckFailureReason::Proxy => "proxy",
                UpdateCheckFailureReason::Configuration => "configuration",
                UpdateCheckFailureReason::Internal => "internal",
            }),
            Metrics::RequestsPerCheck { count, successful } => MetricView::RequestsPerCheck { count, successful },
            Metrics::AttemptsToSuccessfulCheck(n) => MetricView::AttemptsToSuccessfulCheck(n),
            Metrics::AttemptsToSuccessfulInstall { count, successful } => MetricView::AttemptsToSuccessfulInstall { count, successful },
            Metrics::WaitedForRebootDuration(d) => MetricView::WaitedForReboot(d),
            Metrics::FailedBootAttempts(n) => MetricView::FailedBootAttempts(n),
            Metrics::OmahaEventLost(e) => MetricView::EventLost(event_json_of(&e)),
        };
        g.log.push(Op::Metric(v));
        if g.script.metrics_fail {
            Err(anyhow::anyhow!("simulated metrics failure"))
        } else {
            Ok(())
        }
    }
}

// ------------------------------------------------------------------------------------------
// Storage

#[derive(Debug, thiserror::Error)]
#[error("simulated storage failure")]
pub struct SimStorageError;

pub struct SimStorage(pub W);

impl SimStorage {
    fn read(&self, op: SOp, key: &str) -> Option<SVal> {
        let mut g = lock(&self.0);
        if g.interact(false) {
            return None;
        }
        let v = g.storage.get(key).cloned();
        let typed = match (&op, &v) {
            (SOp::GetString, Some(SVal::S(_))) | (SOp::GetInt, Some(SVal::I(_))) | (SOp::GetBool, Some(SVal::B(_))) => v,
            _ => None,
        };
        g.log.push(Op::Storage { op, key: key.to_string(), value: typed.clone(), ok: true });
        typed
    }
    fn write(&mut self, op: SOp, key: &str, value: Option<SVal>) -> BoxFuture<'static, Result<(), SimStorageError>> {
        let mut g = lock(&self.0);
        if g.interact(false) {
            return dead().map(|_| unreachable!()).boxed();
        }
        let idx = g.cur.writes;
        g.cur.writes += 1;
        let f = &g.script.faults;
        let fail = f.fail_all_writes || f.fail_writes.contains(&idx) || f.fail_keys.iter().any(|k| k == key);
        if !fail {
            g.storage.pending.insert(key.to_string(), value.clone());
        }
        g.log.push(Op::Storage { op, key: key.to_string(), value, ok: !fail });
        future::ready(if fail { Err(SimStorageError) } else { Ok(()) }).boxed()
    }
}

impl Storage for SimStorage {
    type Error = SimStorageError;
    fn get_string<'a>(&'a self, key: &'a str) -> BoxFuture<'a, Option<String>> {
        future::ready(match self.read(SOp::GetString, key) {
            Some(SVal::S(s)) => Some(s),
            _ => None,
        })
        .boxed()
    }
    fn get_int<'a>(&'a self, key: &'a str) -> BoxFuture<'a, Option<i64>> {
        future::ready(match self.read(SOp::GetInt, key) {
            Some(SVal::I(i)) => Some(i),
            _ => None,
        })
        .boxed()
    }
    fn get_bool<'a>(&'a self, key: &'a str) -> BoxFuture<'a, Option<bool>> {
        future::ready(match self.read(SOp::GetBool, key) {
            Some(SVal::B(b)) => Some(b),
            _ => None,
        })
        .boxed()
    }
    fn set_string<'a>(&'a mut self, key: &'a str, value: &'a str) -> BoxFuture<'a, Result<(), Self::Error>> {
        self.write(SOp::SetString, key, Some(SVal::S(value.to_string())))
    }
    fn set_int<'a>(&'a mut self, key: &'a str, value: i64) -> BoxFuture<'a, Result<(), Self::Error>> {
        self.write(SOp::SetInt, key, Some(SVal::I(value)))
    }
    fn set_bool<'a>(&'a mut self, key: &'a str, value: bool) -> BoxFuture<'a, Result<(), Self::Error>> {
        self.write(SOp::SetBool, key, Some(SVal::B(value)))
    }
    fn remove<'a>(&'a mut self, key: &'a str) -> BoxFuture<'a, Result<(), Self::Error>> {
        self.write(SOp::Remove, key, None)
    }
    fn commit(&mut self) -> BoxFuture<'_, Result<(), Self::Error>> {
        let mut g = lock(&self.0);
        if g.interact(false) {
            return dead().map(|_| unreachable!()).boxed();
        }
        let idx = g.cur.commits;
        g.cur.commits += 1;
        let fail = g.script.faults.fail_all_commits || g.script.faults.fail_commits.contains(&idx);
        g.log.push(Op::Storage { op: SOp::Commit, key: String::new(), value: None, ok: !fail });
        if fail {
            // a failed commit persists nothing; the cached writes stay cached
            return future::ready(Err(SimStorageError)).boxed();
        }
        let snap = g.storage.commit();
        g.log.push(Op::Committed { snapshot: snap });
        future::ready(Ok(())).boxed()
    }
}

// ------------------------------------------------------------------------------------------
// AppSet

thread_local! {
    /// the embedder's handle on the app set it shares with the state machine of the case running on this thread
    pub static EMBEDDER_APPS: std::cell::RefCell<Option<std::rc::Rc<futures::lock::Mutex<SimAppSet>>>> = const { std::cell::RefCell::new(None) };
}

/// The embedder changes the shared app set (a channel switch: new cohort hint, another day number) - called by the
/// simulated timer when the scripted wait is armed, i.e. while the state machine is between two steps of its flow.
fn embedder_changes_apps() -> bool {
    EMBEDDER_APPS.with(|e| {
        let e = e.borrow();
        let Some(shared) = e.as_ref() else { return false };
        let Some(mut g) = shared.try_lock() else { return false };
        for a in g.apps.iter_mut() {
            a.cohort.hint = Some("switched-by-embedder".to_string());
            a.user_counting = UserCounting::ClientRegulatedByDate(Some(4242));
        }
        true
    })
}

fn embedder_bumps_versions() -> bool {
    EMBEDDER_APPS.with(|e| {
        let e = e.borrow();
        let Some(shared) = e.as_ref() else { return false };
        let Some(mut g) = shared.try_lock() else { return false };
        for a in g.apps.iter_mut() {
            a.version = omaha_client::version::Version::from([77, 7, 7, 7]);
        }
        true
    })
}

pub struct SimAppSet {
    pub apps: Vec<App>,
    pub system: usize,
}
impl AppSet for SimAppSet {
    fn get_apps(&self) -> Vec<App> {
        self.apps.clone()
    }
    fn iter_mut_apps(&mut self) -> Box<dyn Iterator<Item = &mut App> + '_> {
        Box::new(self.apps.iter_mut())
    }
    fn get_system_app_id(&self) -> &str {
        &self.apps[self.system.min(self.apps.len().saturating_sub(1))].id
    }
}

pub fn version_of(v: &[u32]) -> Version {
    match v.len() {
        0 => Version::from([0]),
        1 => Version::from([v[0]]),
        2 => Version::from([v[0], v[1]]),
        3 => Version::from([v[0], v[1], v[2]]),
        _ => Version::from([v[0], v[1], v[2], v[3]]),
    }
}
pub fn build_app(a: &AppSpec) -> App {
    let mut app = App::builder()
        .id(a.id.clone())
        .version(version_of(&a.version))
        .cohort(Cohort { id: a.cohort[0].clone(), hint: a.cohort[1].clone(), name: a.cohort[2].clone() })
        .user_counting(UserCounting::ClientRegulatedByDate(a.days))
        .build();
    app.fingerprint = a.fingerprint.clone();
    app.extra_fields = a.extras.iter().cloned().collect();
    app
}

// ------------------------------------------------------------------------------------------
// Installer

#[derive(Debug, thiserror::Error)]
#[error("simulated installer error: {0}")]
pub struct SimInstallError(pub String);

pub struct SimInstaller(pub W);

impl Installer for SimInstaller {
    type InstallPlan = SimPlan;
    type InstallResult = ();
    type Error = SimInstallError;

    fn perform_install<'a>(&'a mut self, install_plan: &'a SimPlan, observer: Option<&'a dyn ProgressObserver>) -> LocalBoxFuture<'a, ((), Vec<AppInstallResult<SimInstallError>>)> {
        let w = self.0.clone();
        async move {
            let spec = {
                if lock(&w).interact(true) {
                    future::pending::<()>().await;
                }
                let mut g = lock(&w);
                let spec = g.script.installs.get(g.cur.installs).cloned().unwrap_or_default();
                g.cur.installs += 1;
                g.log.push(Op::Install { plan_id: install_plan.id.clone() });
                // an installer (or the embedder behind it) that records the new versions in the shared app set as soon as
                // it has them: the running check must go on reporting with the versions it started with
                if g.script.embedder_bumps_versions_at_install && embedder_bumps_versions() {
                    g.log.push(Op::EmbedderChangedApps);
                }
                spec
            };
            // progress is reported in batches: batch size 1 = sequential reports; larger batches = several
            // receive_progress calls in flight at once (parallel package downloads sharing the observer)
            // concurrent == IMPATIENT: the last value is reported by an installer that does not wait for the report to
            // complete (it polls the report once, e.g. racing it against its own work, drops it and finishes at once)
            let impatient = spec.concurrent == IMPATIENT && !spec.progress.is_empty();
            let batch = if impatient { 1 } else { spec.concurrent.max(1) as usize };
            let awaited = if impatient { spec.progress.len() - 1 } else { spec.progress.len() };
            let mut i = 0;
            while i < awaited {
                let vals: Vec<(usize, f32)> = spec.progress[i..(i + batch).min(spec.progress.len())].iter().enumerate().map(|(k, v)| (i + k, *v)).collect();
                gate(&w, GateLabel::Progress(i)).await;
                {
                    if lock(&w).interact(true) {
                        future::pending::<()>().await;
                    }
                    let mut g = lock(&w);
                    for (k, v) in &vals {
                        g.log.push(Op::Progress { i: *k, value: *v, batch: vals.len() });
                    }
                }
                if let Some(o) = observer {
                    future::join_all(vals.iter().map(|(_, v)| o.receive_progress(None, *v, None, None))).await;
                }
                for (k, _) in &vals {
                    lock(&w).log.push(Op::ProgressDone { i: *k });
                }
                i += vals.len();
            }
            if impatient {
                let k = spec.progress.len() - 1;
                let v = spec.progress[k];
                lock(&w).log.push(Op::Progress { i: k, value: v, batch: 1 });
                if let Some(o) = observer {
                    // select polls the report first, then the ready future wins and the report is dropped unfinished
                    let _ = future::select(o.receive_progress(None, v, None, None), future::ready(())).await;
                }
            } else {
                gate(&w, GateLabel::Install).await;
            }
            // contract: one result per offered app, in response order
            let mut results = spec.results.clone();
            results.resize(install_plan.offered, 0);
            {
                if lock(&w).interact(true) {
                    future::pending::<()>().await;
                }
                let mut g = lock(&w);
                g.log.push(Op::InstallDone { results: results.clone() });
            }
            let out = results
                .iter()
                .enumerate()
                .map(|(i, r)| match r {
                    0 => AppInstallResult::Installed,
                    1 => AppInstallResult::Deferred,
                    _ => AppInstallResult::Failed(SimInstallError(format!("app #{i} failed"))),
                })
                .collect();
            ((), out)
        }
        .boxed_local()
    }

    fn perform_reboot(&mut self) -> LocalBoxFuture<'_, Result<(), anyhow::Error>> {
        let w = self.0.clone();
        async move {
            let ok = {
                if lock(&w).interact(true) {
                    future::pending::<()>().await;
                }
                let mut g = lock(&w);
                let ok = g.script.reboots.get(g.cur.reboots).copied().unwrap_or(true);
                g.cur.reboots += 1;
                g.log.push(Op::Reboot { ok });
                ok
            };
            gate(&w, GateLabel::Reboot).await;
            if ok {
                Ok(())
            } else {
                Err(anyhow::anyhow!("simulated reboot failure"))
            }
        }
        .boxed_local()
    }

    fn try_create_install_plan<'a>(
        &'a self,
        request_params: &'a RequestParams,
        request_metadata: Option<&'a RequestMetadata>,
        response: &'a Response,
        response_bytes: Vec<u8>,
        ecdsa_signature: Option<Vec<u8>>,
    ) -> LocalBoxFuture<'a, Result<SimPlan, SimInstallError>> {
        let w = self.0.clone();
        async move {
            let offered = response.apps.iter().filter(|a| matches!(&a.update_check, Some(u) if u.status == OmahaStatus::Ok)).count();
            let answer = {
                if lock(&w).interact(true) {
                    future::pending::<()>().await;
                }
                let mut g = lock(&w);
                let (ok, id) = g.script.plans.get(g.cur.plans).copied().unwrap_or((true, 0));
                g.cur.plans += 1;
                let answer = if ok { Ok(format!("plan-{id}")) } else { Err("cannot build plan".to_string()) };
                let meta = request_metadata.map(|m| MetaView { body: m.request_body.clone(), key_id: m.public_key_id, nonce: m.nonce.into() });
                g.log.push(Op::CreatePlan { params: params_view(request_params), meta, body: response_bytes, signature: ecdsa_signature, offered, answer: answer.clone() });
                answer
            };
            gate(&w, GateLabel::Plan).await;
            answer.map(|id| SimPlan { id, offered }).map_err(SimInstallError)
        }
        .boxed_local()
    }
}

// ------------------------------------------------------------------------------------------
// HTTP

pub fn parse_request(uri: &str, headers: &[(String, Vec<u8>)], body: &[u8]) -> Option<ReqView> {
    let v: Value = serde_json::from_slice(body).ok()?;
    let r = v.get("request")?;
    let apps: Vec<ReqAppView> = r
        .get("app")?
        .as_array()?
        .iter()
        .map(|a| ReqAppView {
            id: a["appid"].as_str().unwrap_or("").to_string(),
            version: a["version"].as_str().unwrap_or("").to_string(),
            fingerprint: a.get("fp").and_then(|x| x.as_str()).map(|s| s.to_string()),
            cohort: [
                a.get("cohort").and_then(|x| x.as_str()).map(|s| s.to_string()),
                a.get("cohorthint").and_then(|x| x.as_str()).map(|s| s.to_string()),
                a.get("cohortname").and_then(|x| x.as_str()).map(|s| s.to_string()),
            ],
            updatecheck: a.get("updatecheck").map(|u| (u.get("updatedisabled").and_then(|x| x.as_bool()).unwrap_or(false), u.get("sameversionupdate").and_then(|x| x.as_bool()).unwrap_or(false))),
            ping: a.get("ping").map(|p| (p.get("ad").and_then(|x| x.as_u64()), p.get("rd").and_then(|x| x.as_u64()))),
            events: a.get("event").and_then(|e| e.as_array()).map(|e| e.iter().map(event_json).collect()).unwrap_or_default(),
        })
        .collect();
    let kind = if apps.iter().any(|a| a.updatecheck.is_some()) {
        ReqKind::UpdateCheck
    } else if apps.iter().any(|a| !a.events.is_empty()) {
        ReqKind::Events
    } else if apps.iter().any(|a| a.ping.is_some()) {
        ReqKind::Ping
    } else {
        ReqKind::Other
    };
    let cup2key = uri.split_once('?').and_then(|(_, q)| {
        q.split('&').rev().find_map(|p| p.strip_prefix("cup2key=")).and_then(|v| {
            let (id, nonce) = v.split_once(':')?;
            Some((id.parse::<u64>().ok()?, nonce.to_string()))
        })
    });
    Some(ReqView {
        kind,
        session: r.get("sessionid").and_then(|x| x.as_str()).map(|s| s.to_string()),
        request_id: r.get("requestid").and_then(|x| x.as_str()).map(|s| s.to_string()),
        install_source: r["installsource"].as_str().unwrap_or("").to_string(),
        interactivity: headers.iter().find(|(k, _)| k == "x-goog-update-interactivity").map(|(_, v)| String::from_utf8_lossy(v).to_string()),
        apps,
        cup2key,
    })
}

fn default_doc(view: Option<&ReqView>) -> XResp {
    let apps = view
        .map(|v| {
            v.apps
                .iter()
                .map(|a| XApp {
                    id: a.id.clone(),
                    status: "ok".into(),
                    cohort: [None, None, None],
                    ping: a.ping.map(|_| "ok".to_string()),
                    uc: a.updatecheck.map(|_| XUc { status: "noupdate".into(), info: None, urls: None, manifest: None, extra: vec![] }),
                    events: if a.events.is_empty() { None } else { Some(a.events.iter().map(|_| "ok".to_string()).collect()) },
                    extra: vec![],
                })
                .collect()
        })
        .unwrap_or_default();
    XResp { protocol: "3.0".into(), server: None, daystart: None, apps, junk: vec![] }
}

fn render_body(spec: &BodySpec, view: Option<&ReqView>, prefix: bool) -> (Vec<u8>, BodyView) {
    let (mut bytes, bv) = match spec {
        BodySpec::DefaultNoUpdate => {
            let x = default_doc(view);
            (jsongen::to_bytes(&respgen::render(&x, 0), 0, 0), BodyView::Doc(x))
        }
        BodySpec::Doc(x, seed) => (jsongen::to_bytes(&respgen::render(x, *seed), *seed, (*seed % 2) as u8), BodyView::Doc(x.clone())),
        BodySpec::Raw(raw) => {
            let b = match raw {
                RawBody::Empty => vec![],
                RawBody::NotJson(b) => {
                    let mut v = b"<html>".to_vec();
                    v.extend_from_slice(b);
                    v
                }
                RawBody::Truncated(x, cut) => {
                    let full = jsongen::to_bytes(&respgen::render(x, 0), 0, 0);
                    // strictly inside: at least one byte and at most len-1 bytes kept; a strict prefix of a
                    // compact JSON object is never a complete JSON text
                    let keep = 1 + (*cut as usize % (full.len() - 1));
                    full[..keep].to_vec()
                }
                RawBody::Arbitrary(b) => b.clone(),
                RawBody::WrongShape(k) => match k % 5 {
                    0 => b"{}".to_vec(),
                    1 => b"[]".to_vec(),
                    2 => b"{\"response\":{}}".to_vec(),
                    3 => b"{\"response\":{\"protocol\":\"3.0\"}}".to_vec(),
                    _ => b"null".to_vec(),
                },
            };
            let unknown = matches!(raw, RawBody::Arbitrary(_));
            (b, if unknown { BodyView::Unknown } else { BodyView::Unparseable })
        }
    };
    if prefix {
        let mut p = b")]}'\n".to_vec();
        p.append(&mut bytes);
        bytes = p;
    }
    (bytes, bv)
}

pub struct SimHttp(pub W);

impl HttpRequest for SimHttp {
    fn request(&mut self, req: hyper::Request<hyper::Body>) -> BoxFuture<'_, Result<hyper::Response<Vec<u8>>, HttpError>> {
        let w = self.0.clone();
        async move {
            let (parts, body) = req.into_parts();
            let body = hyper::body::to_bytes(body).await.map(|b| b.to_vec()).unwrap_or_default();
            let uri = parts.uri.to_string();
            let headers: Vec<(String, Vec<u8>)> = parts.headers.iter().map(|(k, v)| (k.as_str().to_string(), v.as_bytes().to_vec())).collect();
            let view = parse_request(&uri, &headers, &body);
            let (n, spec) = {
                if lock(&w).interact(true) {
                    future::pending::<()>().await;
                }
                let mut g = lock(&w);
                let n = g.http_n;
                g.http_n += 1;
                let scripted = match g.script.http.get(g.cur.http) {
                    Some(s) => Some(s.clone()),
                    None if g.script.repeat_last_http => g.script.http.last().cloned(),
                    None => None,
                };
                let spec = scripted.unwrap_or(HttpSpec::Resp(RespSpec {
                    status: 200,
                    retry_after: vec![],
                    retry_after_name_case: 0,
                    body: BodySpec::DefaultNoUpdate,
                    auth: Auth::Authentic,
                    prefix: false,
                }));
                g.cur.http += 1;
                g.log.push(Op::Http { n, uri: uri.clone(), method: parts.method.to_string(), headers: headers.clone(), body: body.clone(), view: view.clone() });
                (n, spec)
            };
            gate(&w, GateLabel::Http(n)).await;
            if lock(&w).interact(true) {
                future::pending::<()>().await;
            }
            let mut g = lock(&w);
            let r = match spec {
                HttpSpec::Transport => {
                    g.log.push(Op::HttpDone { n, answer: HttpAnswer::Transport });
                    return Err(mock_errors::make_transport_error());
                }
                HttpSpec::Timeout => {
                    g.log.push(Op::HttpDone { n, answer: HttpAnswer::Timeout });
                    return Err(HttpError::new_timeout());
                }
                HttpSpec::UserError => {
                    g.log.push(Op::HttpDone { n, answer: HttpAnswer::UserError });
                    return Err(mock_errors::make_user_error());
                }
                HttpSpec::Resp(r) => r,
            };
            let (mut body_bytes, mut body_view) = render_body(&r.body, view.as_ref(), r.prefix);
            let mut status = r.status;
            let mut retry_after = r.retry_after.clone();
            // name cases 3 and 4 send the values under a header that is NOT X-Retry-After (the standard Retry-After, a
            // look-alike): for the protocol - and for every model reading the log - this response carries no interval
            let decoy_name = match r.retry_after_name_case {
                3 => Some("Retry-After"),
                4 => Some("X-Retry-After-Seconds"),
                _ => None,
            };
            let decoy_values = if decoy_name.is_some() { std::mem::take(&mut retry_after) } else { vec![] };
            let cup = g.script.cup.clone();
            let mut etag: Option<String> = None;
            let mut authentic = true;
            let mut forgery = None;
            if let Some(cup) = &cup {
                // the request's own cup2key decides what an authentic answer is
                let ck = view.as_ref().and_then(|v| v.cup2key.clone());
                let nonce: Option<[u8; 32]> = ck.as_ref().and_then(|(_, n)| hex::decode(n).ok()).and_then(|b| b.try_into().ok());
                let key_idx = ck.as_ref().and_then(|(id, _)| cup.keys.iter().find(|(i, _)| i == id).map(|(_, k)| *k));
                let sign = |key: usize, over_body: &[u8]| -> Option<String> {
                    let (id, _) = ck.as_ref()?;
                    Some(cupref::authentic_etag(cupref::key(key), &body, over_body, *id, &nonce?).0)
                };
                let auth = match (&r.auth, key_idx, nonce) {
                    (a, Some(_), Some(_)) => a.clone(),
                    // a request without a usable cup2key cannot be answered authentically
                    _ => Auth::NoEtag,
                };
                match auth {
                    Auth::Authentic => {
                        etag = sign(key_idx.unwrap(), &body_bytes);
                    }
                    Auth::NoEtag => {
                        authentic = false;
                        forgery = Some("no etag");
                    }
                    Auth::Garbage(s) => {
                        etag = Some(s);
                        authentic = false;
                        forgery = Some("garbage etag");
                    }
                    Auth::OtherBody => {
                        let mut other = body_bytes.clone();
                        other.extend_from_slice(b" ");
                        etag = sign(key_idx.unwrap(), &other);
                        authentic = false;
                        forgery = Some("signature over another body");
                    }
                    Auth::OtherRegisteredKey => {
                        let me = key_idx.unwrap();
                        match cup.keys.iter().map(|(_, k)| *k).find(|k| *k != me) {
                            Some(other) => {
                                etag = sign(other, &body_bytes);
                                authentic = false;
                                forgery = Some("signed with another registered key");
                            }
                            None => {
                                etag = sign((me + 1) % cupref::POOL, &body_bytes);
                                authentic = false;
                                forgery = Some("signed with an unregistered key");
                            }
                        }
                    }
                    Auth::UnregisteredKey => {
                        let mut k = 0;
                        while cup.keys.iter().any(|(_, x)| *x == k) {
                            k += 1;
                        }
                        etag = sign(k % cupref::POOL, &body_bytes);
                        authentic = false;
                        forgery = Some("signed with an unregistered key");
                    }
                    Auth::ReplayResponse(i) => {
                        if g.genuine.is_empty() {
                            authentic = false;
                            forgery = Some("no etag");
                        } else {
                            let gen = g.genuine[i % g.genuine.len()].clone();
                            status = gen.status;
                            retry_after = gen.retry_after.clone();
                            // the replayed body is what the client sees; for the model it is simply "not authentic"
                            body_view = match serde_json::from_slice::<Value>(&gen.body) {
                                _ => body_view,
                            };
                            body_bytes = gen.body.clone();
                            etag = Some(gen.etag.clone());
                            authentic = false;
                            forgery = Some("replay of an earlier genuine response");
                        }
                    }
                    Auth::ReplaySignature(i) => {
                        if g.genuine.is_empty() {
                            authentic = false;
                            forgery = Some("no etag");
                        } else {
                            let n = g.genuine.len();
                            let old = g.genuine[n - 1 - (i % n)].etag.clone();
                            let sig = old.split(':').next().unwrap_or("").to_string();
                            let fresh = sign(key_idx.unwrap(), &body_bytes).unwrap_or_default();
                            let hash = fresh.split(':').nth(1).unwrap_or("").to_string();
                            etag = Some(format!("{sig}:{hash}"));
                            authentic = false;
                            forgery = Some("signature of an earlier genuine exchange with this request's hash");
                        }
                    }
                    Auth::ReplayEtag(i) => {
                        if g.genuine.is_empty() {
                            authentic = false;
                            forgery = Some("no etag");
                        } else {
                            etag = Some(g.genuine[i % g.genuine.len()].etag.clone());
                            authentic = false;
                            forgery = Some("etag of an earlier genuine exchange");
                        }
                    }
                }
                if authentic {
                    if let Some(e) = &etag {
                        g.genuine.push(Genuine { status, etag: e.clone(), body: body_bytes.clone(), retry_after: retry_after.clone() });
                    }
                }
            }
            let mut b = hyper::Response::builder().status(status);
            let name = match r.retry_after_name_case {
                0 => "X-Retry-After",
                1 => "x-retry-after",
                _ => "X-RETRY-AFTER",
            };
            if let Some(dn) = decoy_name {
                for v in &decoy_values {
                    if let Ok(hv) = http::HeaderValue::from_bytes(v) {
                        b = b.header(dn, hv);
                    }
                }
            }
            let mut sent_retry_after = vec![];
            for v in &retry_after {
                if let Ok(hv) = http::HeaderValue::from_bytes(v) {
                    b = b.header(name, hv);
                    sent_retry_after.push(v.clone());
                }
            }
            if let Some(e) = &etag {
                if let Ok(hv) = http::HeaderValue::from_bytes(e.as_bytes()) {
                    b = b.header(http::header::ETAG, hv);
                }
            }
            // other, unauthenticated headers a reply may carry (they must not change how it is treated)
            match (g.script.content_type_mask >> (2 * (n % 16))) & 3 {
                1 => b = b.header(http::header::CONTENT_TYPE, "text/html; charset=utf-8"),
                2 => b = b.header(http::header::CONTENT_TYPE, "application/json"),
                3 => b = b.header(http::header::CONTENT_TYPE, "TEXT/HTML").header(http::header::CONTENT_LENGTH, "0").header("x-cache", "HIT"),
                _ => {}
            }
            g.log.push(Op::HttpDone {
                n,
                answer: HttpAnswer::Response { status, retry_after: sent_retry_after, authentic, forgery, body: body_view, body_bytes: body_bytes.clone() },
            });
            Ok(b.body(body_bytes).expect("response"))
        }
        .boxed()
    }
}

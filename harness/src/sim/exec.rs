//! Hand-written single-threaded executor around the real state machine: a counting root waker,
//! strict (poll only when woken) and eager disciplines, control-request tasks, crash and rebuild.

use super::types::*;
use super::world::*;
use crate::cupref;
use crate::engine::lock;
use futures::{future::LocalBoxFuture, lock::Mutex as AMutex, prelude::*, task::ArcWake};
use omaha_client::{
    common::CheckOptions,
    configuration::{Config, Updater},
    cup_ecdsa::StandardCupv2Handler,
    protocol::request::{InstallSource, OS},
    state_machine::{update_check, ControlHandle, StartUpdateCheckResponse, State, StateMachineBuilder, StateMachineEvent, StateMachineGone, UpdateCheckError},
    version::Version,
};
use std::{
    pin::Pin,
    rc::Rc,
    sync::{
        atomic::{AtomicUsize, Ordering},
        Arc, Mutex,
    },
    task::{Context, Poll},
};

pub struct Wk(pub AtomicUsize);
impl ArcWake for Wk {
    fn wake_by_ref(a: &Arc<Self>) {
        a.0.fetch_add(1, Ordering::SeqCst);
    }
}

pub type EventStream = Pin<Box<dyn Stream<Item = StateMachineEvent>>>;

pub struct Machine {
    pub w: W,
    pub stream: Option<EventStream>,
    pub ctl: Option<ControlHandle>,
    pub root: Arc<Wk>,
    /// a second waker: a consumer may poll with another waker each time (stream handed between tasks); only the
    /// waker of the LATEST poll has to be woken (Script::switch_wakers)
    pub alt: Arc<Wk>,
    pub use_alt: bool,
    pub switch_wakers: bool,
    pub polled_at: usize,
    pub ended: bool,
    pub polls: usize,
    /// the embedder's handles on the shared storage and app set (what StateMachineBuilder is given)
    pub storage: Rc<AMutex<SimStorage>>,
    pub app_set: Rc<AMutex<SimAppSet>>,
    /// events taken so far / hold the shared storage during the next poll (Script::busy_storage_mask)
    pub took: usize,
    pub hold_storage_next: bool,
    pub hold_app_set_next: bool,
}

pub fn state_view(s: &State) -> StateView {
    match s {
        State::Idle => StateView::Idle,
        State::CheckingForUpdates(src) => StateView::Checking { on_demand: *src == InstallSource::OnDemand },
        State::ErrorCheckingForUpdate => StateView::ErrorChecking,
        State::NoUpdateAvailable => StateView::NoUpdate,
        State::InstallationDeferredByPolicy => StateView::Deferred,
        State::InstallingUpdate => StateView::Installing,
        State::WaitingForReboot => StateView::WaitingForReboot,
        State::InstallationError => StateView::InstallationError,
    }
}

pub fn result_view(r: &Result<update_check::Response, UpdateCheckError>) -> ResultView {
    use omaha_client::state_machine::OmahaRequestError as E;
    match r {
        Ok(resp) => ResultView::Ok(
            resp.app_responses
                .iter()
                .map(|a| {
                    let omaha_client::common::UserCounting::ClientRegulatedByDate(days) = a.user_counting;
                    AppResultView {
                        id: a.app_id.clone(),
                        cohort: [a.cohort.id.clone(), a.cohort.hint.clone(), a.cohort.name.clone()],
                        days,
                        action: match a.result {
                            update_check::Action::NoUpdate => ActionView::NoUpdate,
                            update_check::Action::DeferredByPolicy => ActionView::DeferredByPolicy,
                            update_check::Action::DeniedByPolicy => ActionView::DeniedByPolicy,
                            update_check::Action::InstallPlanExecutionError => ActionView::InstallError,
                            update_check::Action::Updated => ActionView::Updated,
                        },
                    }
                })
                .collect(),
        ),
        Err(UpdateCheckError::OmahaRequest(e)) => ResultView::Err(match e {
            E::Json(_) => "request:json".into(),
            E::HttpBuilder(_) => "request:http-builder".into(),
            E::CupDecoration(_) => "request:cup-decoration".into(),
            E::CupValidation(_) => "request:cup-validation".into(),
            E::HttpTransport(_) => "request:transport".into(),
            E::HttpStatus(s) => format!("request:http-status:{}", s.as_u16()),
        }),
        Err(UpdateCheckError::ResponseParser(_)) => ResultView::Err("parse".into()),
        Err(UpdateCheckError::InstallPlan(_)) => ResultView::Err("install-plan".into()),
    }
}

pub fn event_view(e: &StateMachineEvent) -> EventView {
    match e {
        StateMachineEvent::StateChange(s) => EventView::State(state_view(s)),
        StateMachineEvent::ScheduleChange(s) => EventView::Schedule(sched_view(s)),
        StateMachineEvent::ProtocolStateChange(p) => EventView::Protocol(proto_view(p)),
        StateMachineEvent::UpdateCheckResult(r) => EventView::Result(result_view(r)),
        StateMachineEvent::InstallProgressChange(p) => EventView::Progress(p.progress),
        StateMachineEvent::OmahaServerResponse(r) => EventView::ServerResponse(r.apps.iter().map(|a| a.id.clone()).collect()),
        StateMachineEvent::InstallerError(e) => EventView::InstallerError(e.as_ref().map(|e| e.to_string()).unwrap_or_default()),
    }
}

pub fn config_of(s: &Script) -> Config {
    Config {
        updater: Updater { name: "verif-updater".into(), version: Version::from([1, 2, 3, 4]) },
        os: OS { platform: "sim".into(), version: s.os_version.clone(), service_pack: "sp".into(), arch: "arch".into() },
        service_url: s.service_url.clone(),
        omaha_public_keys: None,
    }
}

/// Either the scripted simulated server or a caller-supplied transport (e.g. the in-process mock Omaha server).
pub enum AnyHttp {
    Sim(SimHttp),
    Custom(Box<dyn omaha_client::http_request::HttpRequest>),
}
impl omaha_client::http_request::HttpRequest for AnyHttp {
    fn request(&mut self, req: hyper::Request<hyper::Body>) -> futures::future::BoxFuture<'_, Result<hyper::Response<Vec<u8>>, omaha_client::http_request::Error>> {
        match self {
            AnyHttp::Sim(s) => s.request(req),
            AnyHttp::Custom(c) => c.request(req),
        }
    }
}

fn builder(
    w: &W,
    http: Option<Box<dyn omaha_client::http_request::HttpRequest>>,
) -> (StateMachineBuilder<SimPolicy, AnyHttp, SimInstaller, SimTimer, SimMetrics, SimStorage, SimAppSet, StandardCupv2Handler>, Rc<AMutex<SimStorage>>, Rc<AMutex<SimAppSet>>) {
    let (config, apps, system, cup) = {
        let g = lock(w);
        (
            config_of(&g.script),
            g.script.apps.iter().map(build_app).collect::<Vec<_>>(),
            g.script.system_app,
            g.script.cup.clone().map(|c| StandardCupv2Handler::new(&cupref::public_keys(c.keys[0], &c.keys[1..]))),
        )
    };
    let storage = Rc::new(AMutex::new(SimStorage(w.clone())));
    let app_set = Rc::new(AMutex::new(SimAppSet { apps, system }));
    let b = StateMachineBuilder::new(
        SimPolicy(w.clone(), SimTime(w.clone())),
        match http {
            Some(h) => AnyHttp::Custom(h),
            None => AnyHttp::Sim(SimHttp(w.clone())),
        },
        SimInstaller(w.clone()),
        SimTimer(w.clone()),
        SimMetrics(w.clone()),
        storage.clone(),
        config,
        app_set.clone(),
        cup,
    );
    (b, storage, app_set)
}

impl Machine {
    /// Build a new state machine ("process start") on the world's surviving storage.
    pub fn build(w: &W, oneshot: bool) -> Machine {
        Self::build_with_http(w, oneshot, None)
    }

    /// Like `build`, with a caller-supplied transport instead of the scripted simulated server.
    pub fn build_with_http(w: &W, oneshot: bool, http: Option<Box<dyn omaha_client::http_request::HttpRequest>>) -> Machine {
        {
            let mut g = lock(w);
            let life = g.life;
            g.life += 1;
            g.life_interactions = 0;
            g.waits_for = 0;
            g.life_clock = 0;
            g.runaway = false;
            g.crashed = false;
            g.gates.clear();
            g.log.push(Op::Build { life, oneshot });
        }
        let (b, storage, app_set) = builder(w, http);
        let (ctl, stream): (Option<ControlHandle>, EventStream) = if oneshot {
            (None, Box::pin(futures::executor::block_on(b.oneshot_check())))
        } else {
            let (c, s) = futures::executor::block_on(b.start());
            (Some(c), Box::pin(s))
        };
        EMBEDDER_APPS.with(|e| *e.borrow_mut() = Some(app_set.clone()));
        // the app set is shared with the embedder, who may change it before the stream is first polled
        if let Some((i, how)) = lock(w).script.spoil_app_after_start {
            if !oneshot {
                if let Some(mut g) = app_set.try_lock() {
                    let n = g.apps.len();
                    let a = &mut g.apps[i % n];
                    if how == 0 {
                        a.id = String::new();
                    } else {
                        a.version = Version::from([0]);
                    }
                }
            }
        }
        Machine { w: w.clone(), stream: Some(stream), ctl, root: Arc::new(Wk(AtomicUsize::new(1))), alt: Arc::new(Wk(AtomicUsize::new(1))), use_alt: false, switch_wakers: lock(w).script.switch_wakers, polled_at: 0, ended: false, polls: 0, storage, app_set, took: 0, hold_storage_next: false, hold_app_set_next: false }
    }

    fn current(&self) -> &Arc<Wk> {
        if self.use_alt {
            &self.alt
        } else {
            &self.root
        }
    }

    pub fn woken(&self) -> bool {
        self.current().0.load(Ordering::SeqCst) != self.polled_at
    }

    /// Poll the stream once. Returns Some(event) if the consumer took one.
    pub fn poll_once(&mut self) -> Option<EventView> {
        let Some(stream) = self.stream.as_mut() else { return None };
        // an embedder that reacts to the event it just took by using the shared storage: it holds the mutex during this
        // poll (the machine has to wait for it; the release wakes it)
        let shared_storage = self.storage.clone();
        let _embedder_guard = if std::mem::take(&mut self.hold_storage_next) {
            let g = shared_storage.try_lock();
            if g.is_some() {
                lock(&self.w).log.push(Op::EmbedderHoldsStorage);
            }
            g
        } else {
            None
        };
        let shared_apps = self.app_set.clone();
        let _embedder_apps_guard = if std::mem::take(&mut self.hold_app_set_next) {
            let g = shared_apps.try_lock();
            if g.is_some() {
                lock(&self.w).log.push(Op::EmbedderHoldsAppSet);
            }
            g
        } else {
            None
        };
        if self.switch_wakers {
            self.use_alt = !self.use_alt;
        }
        let current = if self.use_alt { self.alt.clone() } else { self.root.clone() };
        self.polled_at = current.0.load(Ordering::SeqCst);
        self.polls += 1;
        let wk = futures::task::waker(current.clone());
        let mut cx = Context::from_waker(&wk);
        match stream.as_mut().poll_next(&mut cx) {
            Poll::Ready(Some(e)) => {
                let v = event_view(&e);
                let mut g = lock(&self.w);
                if !g.crashed {
                    g.interactions += 1;
                    if g.crash_at == Some(g.interactions) {
                        // the process dies right after the observer received this event
                        g.log.push(Op::Took(v.clone()));
                        g.crashed = true;
                        let at = g.interactions;
                        g.log.push(Op::Crash { at });
                        return Some(v);
                    }
                    g.log.push(Op::Took(v.clone()));
                    // the generator is now suspended inside this emission until the consumer polls again: an embedder
                    // that locks the shared app set or storage between two polls must not find them locked
                    if _embedder_apps_guard.is_none() && self.app_set.try_lock().is_none() {
                        g.log.push(Op::LockHeldAtEmission { which: "app set" });
                    }
                    if (g.script.busy_app_set_mask >> (self.took % 32)) & 1 == 1 {
                        self.hold_app_set_next = true;
                    }
                    if _embedder_guard.is_none() && self.storage.try_lock().is_none() {
                        g.log.push(Op::LockHeldAtEmission { which: "storage" });
                    }
                    if (g.script.busy_storage_mask >> (self.took % 32)) & 1 == 1 {
                        self.hold_storage_next = true;
                    }
                    self.took += 1;
                }
                // Ready(Some) owes no wake-up: the consumer may poll again at will
                current.0.fetch_add(1, Ordering::SeqCst);
                Some(v)
            }
            Poll::Ready(None) => {
                lock(&self.w).log.push(Op::StreamEnd);
                self.ended = true;
                None
            }
            Poll::Pending => None,
        }
    }

    /// Drop the machine (process death or embedder shutdown).
    pub fn kill(&mut self, crash: bool) {
        self.stream = None;
        let mut g = lock(&self.w);
        if crash {
            g.storage.crash();
        }
        g.log.push(Op::MachineDropped);
    }
}

#[derive(Clone, Copy, Debug)]
pub struct StopSpec {
    /// stop after this many UpdateCheckResult events followed by Idle (continuous) / stream end (one-shot)
    pub checks: usize,
    pub max_polls: usize,
}

#[derive(Debug, PartialEq)]
pub enum RunEnd {
    Completed,
    StreamEnded,
    Crashed,
    /// the stream returned Pending although nothing can wake it (eager mode): a hang
    Stalled,
    PollBudget,
}

/// Eager driving: every gate is open, poll until `stop`.
pub fn run_eager(m: &mut Machine, stop: StopSpec) -> RunEnd {
    let mut results = 0;
    let mut want_idle = false;
    loop {
        if lock(&m.w).crashed {
            return RunEnd::Crashed;
        }
        if m.polls >= stop.max_polls || lock(&m.w).runaway {
            return RunEnd::PollBudget;
        }
        match m.poll_once() {
            Some(EventView::Result(_)) => {
                results += 1;
                if results >= stop.checks {
                    want_idle = true;
                }
            }
            Some(EventView::State(StateView::Idle)) if want_idle => return RunEnd::Completed,
            Some(_) => {}
            None => {
                if m.ended {
                    return RunEnd::StreamEnded;
                }
                if lock(&m.w).crashed {
                    return RunEnd::Crashed;
                }
                if lock(&m.w).runaway {
                    return RunEnd::PollBudget;
                }
                if !m.woken() {
                    return RunEnd::Stalled;
                }
            }
        }
    }
}

// ------------------------------------------------------------------------------------------
// control requests as separately polled tasks

pub struct Req {
    pub id: usize,
    pub fut: LocalBoxFuture<'static, Result<StartUpdateCheckResponse, StateMachineGone>>,
    pub wk: Arc<Wk>,
    pub polled_at: usize,
    pub done: Option<&'static str>,
    pub on_demand: bool,
}

impl Req {
    pub fn new(id: usize, mut h: ControlHandle, on_demand: bool) -> Req {
        let src = if on_demand { InstallSource::OnDemand } else { InstallSource::ScheduledTask };
        Req {
            id,
            fut: async move { h.start_update_check(CheckOptions { source: src }).await }.boxed_local(),
            wk: Arc::new(Wk(AtomicUsize::new(1))),
            polled_at: 0,
            done: None,
            on_demand,
        }
    }
    pub fn woken(&self) -> bool {
        self.done.is_none() && self.wk.0.load(Ordering::SeqCst) != self.polled_at
    }
    pub fn poll(&mut self, w: &W) {
        if self.done.is_some() {
            return;
        }
        self.polled_at = self.wk.0.load(Ordering::SeqCst);
        let wk = futures::task::waker(self.wk.clone());
        let mut cx = Context::from_waker(&wk);
        if let Poll::Ready(r) = self.fut.as_mut().poll(&mut cx) {
            let reply = match r {
                Ok(StartUpdateCheckResponse::Started) => "Started",
                Ok(StartUpdateCheckResponse::AlreadyRunning) => "AlreadyRunning",
                Ok(StartUpdateCheckResponse::Throttled) => "Throttled",
                Err(StateMachineGone) => "Gone",
            };
            lock(w).log.push(Op::ControlReply { req: self.id, reply });
            self.done = Some(reply);
        }
    }
}

pub fn new_world(script: Script) -> W {
    Arc::new(Mutex::new(World::new(script)))
}

use omaha_verif::{engine::Run, props};

fn usage() -> ! {
    eprintln!("usage: verif <ID> <quick|thorough> [--replay FILE]\n       verif list");
    std::process::exit(2)
}

fn main() {
    let args: Vec<String> = std::env::args().collect();
    if args.len() >= 2 && args[1] == "list" {
        for p in props::all() {
            println!("{} {}", p.id, p.level);
        }
        return;
    }
    if args.len() >= 3 && args[1] == "corpus" {
        // seed corpora for the fuzz targets: valid documents for the parser target, pseudo-random tapes for the others
        use omaha_verif::{jsongen, respgen, tape::Tape};
        let root = std::path::PathBuf::from(&args[2]);
        let mut x: u64 = 0x9E3779B97F4A7C15;
        let mut next = move || {
            x ^= x << 13;
            x ^= x >> 7;
            x ^= x << 17;
            x
        };
        for target in ["fuzz_parse_response", "fuzz_cup_etag", "fuzz_version", "fuzz_sim"] {
            let d = root.join(target);
            std::fs::create_dir_all(&d).unwrap();
            for i in 0..48 {
                let tape: Vec<u32> = (0..400).map(|_| next() as u32).collect();
                let bytes: Vec<u8> = if target == "fuzz_parse_response" {
                    let mut t = Tape::new(tape);
                    let doc = respgen::gen_xresp(&mut t);
                    let mut b = jsongen::to_bytes(&respgen::render(&doc, next()), next(), (i % 2) as u8);
                    if i % 5 == 0 {
                        let mut p = b")]}'\n".to_vec();
                        p.append(&mut b);
                        b = p;
                    }
                    b
                } else if target == "fuzz_version" {
                    ["1.2.3.4", "0", "4294967295.0.1", "1..2", "+1.2", "1.2.3.4.5", " 1", "007.1"][i % 8].as_bytes().to_vec()
                } else {
                    let mut b: Vec<u8> = tape.iter().flat_map(|w| w.to_le_bytes()).collect();
                    if target == "fuzz_sim" {
                        b.insert(0, i as u8);
                    }
                    b.truncate(1200);
                    b
                };
                std::fs::write(d.join(format!("seed-{i:02}")), bytes).unwrap();
            }
        }
        return;
    }
    if args.len() < 3 {
        usage();
    }
    let id = args[1].to_uppercase();
    let tier = std::env::var("VERIF_TIER").ok().filter(|t| t == "quick" || t == "thorough").unwrap_or_else(|| args[2].clone());
    let tier = if args[2] == "quick" || args[2] == "thorough" { args[2].clone() } else { tier };
    let Some(p) = props::all().into_iter().find(|p| p.id == id) else {
        eprintln!("unknown property {id}");
        std::process::exit(2)
    };
    let mut run = Run::new(p.id, &tier, p.level);
    if let Some(i) = args.iter().position(|a| a == "--replay") {
        let Some(path) = args.get(i + 1) else { usage() };
        let code = run.replay_file(path, p.replay_reps, &p.case);
        std::process::exit(code);
    }
    let code = (p.run)(run);
    std::process::exit(code);
}

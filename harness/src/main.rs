use omaha_verif::{engine::Run, props};

fn usage() -> ! {
    eprintln!("usage: verif <ID> <quick|thorough> [--replay FILE]\n       verif list");
    std::process::exit(2)
}

fn main() {
    let args: Vec<String> = std::env::args().collect();
    if args.len() >= 2 && args[1] == "list" {
        for p in props::all() {
            println!("{} {}", p.id, p.level);
        }
        return;
    }
    if args.len() < 3 {
        usage();
    }
    let id = args[1].to_uppercase();
    let tier = std::env::var("VERIF_TIER").ok().filter(|t| t == "quick" || t == "thorough").unwrap_or_else(|| args[2].clone());
    let tier = if args[2] == "quick" || args[2] == "thorough" { args[2].clone() } else { tier };
    let Some(p) = props::all().into_iter().find(|p| p.id == id) else {
        eprintln!("unknown property {id}");
        std::process::exit(2)
    };
    let mut run = Run::new(p.id, &tier, p.level);
    if let Some(i) = args.iter().position(|a| a == "--replay") {
        let Some(path) = args.get(i + 1) else { usage() };
        let code = run.replay_file(path, p.replay_reps, &p.case);
        std::process::exit(code);
    }
    let code = (p.run)(run);
    std::process::exit(code);
}

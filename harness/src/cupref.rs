//! Independent CUPv2 signer and reference verifier.
//!
//! Composes the signed digest from the specification text with `sha2` and signs with `p256`;
//! never calls `omaha_client::cup_ecdsa::make_transaction_hash`.

use omaha_client::cup_ecdsa::{PublicKeyAndId, PublicKeys};
use p256::ecdsa::{
    signature::{hazmat::PrehashSigner, Signer, Verifier},
    Signature, SigningKey, VerifyingKey,
};
use sha2::{Digest, Sha256};
use std::sync::OnceLock;

pub const POOL: usize = 8;

/// A fixed pool of P-256 keys derived from constant strings (deterministic, no RNG).
pub fn key(i: usize) -> &'static SigningKey {
    static KEYS: OnceLock<Vec<SigningKey>> = OnceLock::new();
    &KEYS.get_or_init(|| {
        (0..POOL)
            .map(|i| {
                let mut ctr = 0u32;
                loop {
                    let d = Sha256::digest(format!("omaha-verif key {i} try {ctr}").as_bytes());
                    if let Ok(k) = SigningKey::from_bytes(&d) {
                        return k;
                    }
                    ctr += 1;
                }
            })
            .collect()
    })[i % POOL]
}

pub fn vkey(i: usize) -> VerifyingKey {
    VerifyingKey::from(key(i))
}

pub fn sha(b: &[u8]) -> [u8; 32] {
    Sha256::digest(b).into()
}

/// The message the server signs, per the CUP-ECDSA specification:
/// SHA-256( SHA-256(request body) || SHA-256(response body) || "<key id>:<nonce lowercase hex>" ).
pub fn transaction_digest(req: &[u8], resp: &[u8], key_id: u64, nonce: &[u8; 32]) -> [u8; 32] {
    let mut pre = Vec::with_capacity(64 + 90);
    pre.extend_from_slice(&sha(req));
    pre.extend_from_slice(&sha(resp));
    pre.extend_from_slice(format!("{}:{}", key_id, hex::encode(nonce)).as_bytes());
    sha(&pre)
}

/// ECDSA/SHA-256 over `msg` (the primitive hashes `msg` once more), DER encoded.
pub fn sign_der(k: &SigningKey, msg: &[u8]) -> Vec<u8> {
    let s: Signature = k.sign(msg);
    s.to_der().as_bytes().to_vec()
}

/// Sign `prehash` directly (no further hashing) - used only for negative "single hash" forgeries.
pub fn sign_prehash_der(k: &SigningKey, prehash: &[u8]) -> Vec<u8> {
    let s: Signature = k.sign_prehash(prehash).expect("sign_prehash");
    s.to_der().as_bytes().to_vec()
}

pub fn etag_plain(sig_der: &[u8], req_hash: &[u8]) -> String {
    format!("{}:{}", hex::encode(sig_der), hex::encode(req_hash))
}

/// Authentic ETag value for an exchange.
pub fn authentic_etag(k: &SigningKey, req: &[u8], resp: &[u8], key_id: u64, nonce: &[u8; 32]) -> (String, Vec<u8>) {
    let der = sign_der(k, &transaction_digest(req, resp, key_id, nonce));
    (etag_plain(&der, &sha(req)), der)
}

pub fn public_keys(latest: (u64, usize), historical: &[(u64, usize)]) -> PublicKeys {
    PublicKeys {
        latest: PublicKeyAndId { id: latest.0, key: vkey(latest.1) },
        historical: historical.iter().map(|(id, k)| PublicKeyAndId { id: *id, key: vkey(*k) }).collect(),
    }
}

#[derive(Debug, PartialEq, Eq, Clone)]
pub enum RefVerdict {
    Accept(Vec<u8>),
    Reject(&'static str),
}

/// Does the header text contain upper-case hex digits in a position where hex is expected?
pub fn has_upper_hex(inner: &str) -> bool {
    inner.bytes().any(|b| (b'A'..=b'F').contains(&b))
}

/// Own ETag unwrapping (plain, "quoted", W/"weak").
pub fn unwrap_etag(v: &str) -> &str {
    if v.len() >= 4 && v.starts_with("W/\"") && v.ends_with('"') {
        &v[3..v.len() - 1]
    } else if v.len() >= 2 && v.starts_with('"') && v.ends_with('"') {
        &v[1..v.len() - 1]
    } else {
        v
    }
}

fn unhex(s: &str) -> Option<Vec<u8>> {
    if s.len() % 2 != 0 {
        return None;
    }
    let b = s.as_bytes();
    let nib = |c: u8| match c {
        b'0'..=b'9' => Some(c - b'0'),
        b'a'..=b'f' => Some(c - b'a' + 10),
        b'A'..=b'F' => Some(c - b'A' + 10),
        _ => None,
    };
    (0..b.len() / 2).map(|i| Some(nib(b[2 * i])? << 4 | nib(b[2 * i + 1])?)).collect()
}

/// Reference verifier for arbitrary header bytes, written from the property statement.
/// `keys`: (id, verifying key) registered at the client.
pub fn reference_verify(
    header: Option<&[u8]>,
    req: &[u8],
    resp: &[u8],
    key_id: u64,
    nonce: &[u8; 32],
    keys: &[(u64, VerifyingKey)],
) -> RefVerdict {
    let Some(h) = header else { return RefVerdict::Reject("no etag") };
    if !h.iter().all(|b| (32..127).contains(b) || *b == b'\t') {
        return RefVerdict::Reject("not visible ascii");
    }
    let text = std::str::from_utf8(h).unwrap();
    let inner = unwrap_etag(text);
    let Some((sig_hex, hash_hex)) = inner.split_once(':') else { return RefVerdict::Reject("no colon") };
    let Some(hash) = unhex(hash_hex) else { return RefVerdict::Reject("hash not hex") };
    if hash != sha(req) {
        return RefVerdict::Reject("hash mismatch");
    }
    let Some(sig) = unhex(sig_hex) else { return RefVerdict::Reject("sig not hex") };
    let Ok(parsed) = Signature::from_der(&sig) else { return RefVerdict::Reject("sig not DER") };
    // the first registration of an id wins in a HashMap built by collect()? no: the last one wins.
    let Some((_, vk)) = keys.iter().rev().find(|(id, _)| *id == key_id) else { return RefVerdict::Reject("unknown key id") };
    let m = transaction_digest(req, resp, key_id, nonce);
    match vk.verify(&m, &parsed) {
        Ok(()) => RefVerdict::Accept(sig),
        Err(_) => RefVerdict::Reject("bad signature"),
    }
}

//! Independent generator of the Omaha v3 response grammar: a plain expected structure (`XResp`),
//! its rendering to JSON (`render`), and a field-for-field comparison with what the library parsed.

use crate::jsongen::J;
use crate::tape::Tape;
use omaha_client::protocol::response::{OmahaStatus, Response};
use serde_json::Value;

#[derive(Clone, Debug, PartialEq)]
pub struct XResp {
    pub protocol: String,
    pub server: Option<String>,
    /// (elapsed_days, elapsed_seconds)
    pub daystart: Option<(Option<u32>, Option<u32>)>,
    pub apps: Vec<XApp>,
    /// unknown attributes at the response level (ignored by the protocol)
    pub junk: Vec<(String, J)>,
}
#[derive(Clone, Debug, PartialEq)]
pub struct XApp {
    pub id: String,
    pub status: String,
    /// cohort, cohorthint, cohortname
    pub cohort: [Option<String>; 3],
    pub ping: Option<String>,
    pub uc: Option<XUc>,
    pub events: Option<Vec<String>>,
    pub extra: Vec<(String, J)>,
}
#[derive(Clone, Debug, PartialEq)]
pub struct XUc {
    pub status: String,
    pub info: Option<String>,
    pub urls: Option<Vec<String>>,
    pub manifest: Option<XMan>,
    pub extra: Vec<(String, J)>,
}
#[derive(Clone, Debug, PartialEq)]
pub struct XMan {
    pub version: String,
    pub actions: Vec<XAction>,
    pub packages: Vec<XPkg>,
}
#[derive(Clone, Debug, PartialEq)]
pub struct XAction {
    pub event: Option<String>,
    pub run: Option<String>,
    pub extra: Vec<(String, J)>,
}
#[derive(Clone, Debug, PartialEq)]
pub struct XPkg {
    pub name: String,
    pub required: bool,
    pub size: Option<u64>,
    pub hash: Option<String>,
    pub hash_sha256: Option<String>,
    pub fp: String,
    pub extra: Vec<(String, J)>,
}

pub const STATUSES: &[&str] = &[
    "ok", "noupdate", "restricted", "error-unknownApplication", "error-invalidAppId", "error-osnotsupported",
    "error-hwnotsupported", "error-hash", "error-internal", "OK", "NoUpdate", "", "no update",
];

pub fn expected_status(s: &str) -> OmahaStatus {
    match s {
        "ok" => OmahaStatus::Ok,
        "restricted" => OmahaStatus::Restricted,
        "noupdate" => OmahaStatus::NoUpdate,
        other => OmahaStatus::Error(other.to_string()),
    }
}

fn gen_status(t: &mut Tape) -> String {
    match t.weighted(&[4, 3, 1]) {
        0 => "ok".into(),
        1 => t.pick(STATUSES).to_string(),
        _ => t.text_mixed(10),
    }
}

pub fn gen_extra_value(t: &mut Tape, depth: usize) -> J {
    match t.choose(if depth == 0 { 6 } else { 8 }) {
        0 => J::S(t.text_mixed(8)),
        1 => J::Bool(t.flag()),
        2 => J::U(t.u64_biased()),
        3 => J::I(t.i64_biased()),
        4 => J::Null,
        5 => J::Raw((*t.pick(&["1.5", "-0.25", "1e3", "0.0", "2.5E-1"])).to_string()),
        6 => J::A(t.vec_of(3, |t| gen_extra_value(t, depth - 1))),
        _ => {
            let mut keys: Vec<String> = vec![];
            J::O(t.vec_of(3, |t| {
                let mut k = t.text_mixed(5);
                while keys.contains(&k) {
                    k.push('_');
                }
                keys.push(k.clone());
                (k, gen_extra_value(t, depth - 1))
            }))
        }
    }
}

pub fn gen_extras(t: &mut Tape, reserved: &[&str], max: usize) -> Vec<(String, J)> {
    let mut out: Vec<(String, J)> = vec![];
    for _ in 0..t.choose(max + 1) {
        let mut k = match t.choose(3) {
            // familiar extension names, case variants of protocol keys, and the library's own (Rust) field names: an
            // extension attribute may be called anything the protocol does not define for that object
            0 => (*t.pick(&[
                "_urgent_update", "realm_id", "x-ext", "sha256", "Status", "APPID", "id", "hint", "name", "apps", "events", "update_check", "protocol_version",
                "extra_attributes", "fingerprint", "elapsed_days", "elapsed_seconds", "version", "codebase", "url", "action", "package", "date_last_active", "Cohort", "info", "run",
            ]))
            .to_string(),
            _ => t.text_mixed(6),
        };
        while reserved.contains(&k.as_str()) || out.iter().any(|(e, _)| *e == k) {
            k.push('_');
        }
        let v = gen_extra_value(t, 2);
        out.push((k, v));
    }
    out
}

fn opt_text(t: &mut Tape) -> Option<String> {
    match t.weighted(&[3, 1, 3]) {
        0 => None,
        1 => Some(String::new()),
        _ => Some(t.text_mixed(10)),
    }
}

pub fn gen_pkg(t: &mut Tape) -> XPkg {
    XPkg {
        name: t.text_mixed(12),
        required: t.flag(),
        size: t.option(|t| t.u64_biased()),
        hash: opt_text(t),
        hash_sha256: opt_text(t),
        fp: t.text_mixed(10),
        extra: gen_extras(t, &["name", "required", "size", "hash", "hash_sha256", "fp"], 2),
    }
}

pub fn gen_manifest(t: &mut Tape) -> XMan {
    XMan {
        version: match t.choose(3) {
            0 => "1.2.3.4".to_string(),
            1 => format!("{}.{}", t.choose(100), t.choose(100)),
            _ => t.text_mixed(8),
        },
        actions: t.vec_of(3, |t| XAction { event: opt_text(t), run: opt_text(t), extra: gen_extras(t, &["event", "run"], 2) }),
        packages: t.vec_of(3, gen_pkg),
    }
}

pub fn gen_uc(t: &mut Tape) -> XUc {
    let status = gen_status(t);
    let full = status == "ok" || t.chance(1, 4);
    XUc {
        status,
        info: opt_text(t),
        urls: if full || t.flag() { Some(t.vec_of(3, |t| format!("http://{}/{}", t.ident(6), t.text_mixed(4)))) } else { None },
        manifest: if full || t.chance(1, 4) { Some(gen_manifest(t)) } else { None },
        extra: gen_extras(t, &["status", "info", "urls", "manifest"], 2),
    }
}

pub fn gen_app(t: &mut Tape, id: String) -> XApp {
    XApp {
        id,
        status: gen_status(t),
        cohort: [opt_text(t), opt_text(t), opt_text(t)],
        ping: t.option(gen_status),
        uc: t.option(gen_uc),
        events: t.option(|t| t.vec_of(3, gen_status)),
        extra: gen_extras(t, &["appid", "status", "cohort", "cohorthint", "cohortname", "ping", "updatecheck", "event"], 2),
    }
}

pub fn gen_xresp(t: &mut Tape) -> XResp {
    let napps = t.choose(5);
    XResp {
        protocol: if t.chance(1, 8) { t.text_mixed(4) } else { "3.0".into() },
        server: opt_text(t),
        daystart: t.option(|t| (t.option(|t| t.u32_biased()), t.option(|t| t.u32_biased()))),
        apps: (0..napps)
            .map(|i| {
                let id = match t.choose(3) {
                    0 => format!("{{00000000-0000-0000-0000-00000000000{i}}}"),
                    1 => t.text_mixed(10),
                    _ => format!("app{i}"),
                };
                gen_app(t, id)
            })
            .collect(),
        junk: gen_extras(t, &["protocol", "server", "daystart", "app"], 2),
    }
}

fn push_opt(o: &mut Vec<(String, J)>, k: &str, v: &Option<String>) {
    if let Some(v) = v {
        o.push((k.to_string(), J::S(v.clone())));
    }
}

/// next value of the xorshift stream (0 stays 0: seed 0 = plain rendering)
fn next_of(seed: &mut u64) -> u64 {
    if *seed == 0 {
        return 0;
    }
    let mut x = *seed;
    x ^= x << 13;
    x ^= x >> 7;
    x ^= x << 17;
    *seed = x;
    x >> 33
}

/// Extension members for the small objects that have no typed 'extra' map in the client (url, daystart, and the urls /
/// packages / actions wrappers): the protocol allows them (`codebasediff` is a published url attribute), the client must
/// accept the document and decode everything else unchanged.
fn leaf_extension(o: &mut Vec<(String, J)>, seed: &mut u64, names: &[&str]) {
    let r = next_of(seed);
    if r % 4 == 1 {
        let name = names[(r as usize / 4) % names.len()];
        let v = match (r / 64) % 3 {
            0 => J::S("x".into()),
            1 => J::U(7),
            _ => J::O(vec![]),
        };
        o.push((name.to_string(), v));
    }
}

/// deterministic shuffle of object keys driven by a seed (Fisher-Yates over an xorshift stream)
fn shuffle(o: &mut Vec<(String, J)>, seed: &mut u64) {
    if *seed == 0 {
        return;
    }
    for i in (1..o.len()).rev() {
        let mut x = *seed;
        x ^= x << 13;
        x ^= x >> 7;
        x ^= x << 17;
        *seed = x;
        let j = (x >> 33) as usize % (i + 1);
        o.swap(i, j);
    }
}

pub fn render_pkg(p: &XPkg, seed: &mut u64) -> J {
    let mut o = vec![("name".to_string(), J::S(p.name.clone())), ("required".to_string(), J::Bool(p.required)), ("fp".to_string(), J::S(p.fp.clone()))];
    if let Some(s) = p.size {
        o.push(("size".into(), J::U(s)));
    }
    push_opt(&mut o, "hash", &p.hash);
    push_opt(&mut o, "hash_sha256", &p.hash_sha256);
    o.extend(p.extra.iter().cloned());
    shuffle(&mut o, seed);
    J::O(o)
}

pub fn render_uc(u: &XUc, seed: &mut u64) -> J {
    let mut o = vec![("status".to_string(), J::S(u.status.clone()))];
    push_opt(&mut o, "info", &u.info);
    if let Some(urls) = &u.urls {
        let list = urls
            .iter()
            .map(|c| {
                let mut u = vec![("codebase".to_string(), J::S(c.clone()))];
                leaf_extension(&mut u, seed, &["codebasediff", "_ext", "region"]);
                shuffle(&mut u, seed);
                J::O(u)
            })
            .collect();
        let mut w = vec![("url".to_string(), J::A(list))];
        leaf_extension(&mut w, seed, &["_ext", "count"]);
        o.push(("urls".into(), J::O(w)));
    }
    if let Some(m) = &u.manifest {
        let actions = m
            .actions
            .iter()
            .map(|a| {
                let mut ao = vec![];
                push_opt(&mut ao, "event", &a.event);
                push_opt(&mut ao, "run", &a.run);
                ao.extend(a.extra.iter().cloned());
                shuffle(&mut ao, seed);
                J::O(ao)
            })
            .collect();
        let pkgs = m.packages.iter().map(|p| render_pkg(p, seed)).collect();
        let mut mo = vec![
            ("version".to_string(), J::S(m.version.clone())),
            ("actions".to_string(), J::O(vec![("action".into(), J::A(actions))])),
            ("packages".to_string(), J::O(vec![("package".into(), J::A(pkgs))])),
        ];
        shuffle(&mut mo, seed);
        o.push(("manifest".into(), J::O(mo)));
    }
    o.extend(u.extra.iter().cloned());
    shuffle(&mut o, seed);
    J::O(o)
}

pub fn render_app(a: &XApp, seed: &mut u64) -> J {
    let mut o = vec![("appid".to_string(), J::S(a.id.clone())), ("status".to_string(), J::S(a.status.clone()))];
    for (k, v) in ["cohort", "cohorthint", "cohortname"].iter().zip(&a.cohort) {
        push_opt(&mut o, k, v);
    }
    if let Some(p) = &a.ping {
        o.push(("ping".into(), J::O(vec![("status".into(), J::S(p.clone()))])));
    }
    if let Some(u) = &a.uc {
        o.push(("updatecheck".into(), render_uc(u, seed)));
    }
    if let Some(ev) = &a.events {
        o.push(("event".into(), J::A(ev.iter().map(|s| J::O(vec![("status".into(), J::S(s.clone()))])).collect())));
    }
    o.extend(a.extra.iter().cloned());
    shuffle(&mut o, seed);
    J::O(o)
}

/// `seed == 0` keeps the canonical key order
pub fn render(x: &XResp, mut seed: u64) -> J {
    let seed = &mut seed;
    let mut r = vec![("protocol".to_string(), J::S(x.protocol.clone()))];
    push_opt(&mut r, "server", &x.server);
    if let Some((d, s)) = x.daystart {
        let mut o = vec![];
        if let Some(d) = d {
            o.push(("elapsed_days".to_string(), J::U(d as u64)));
        }
        if let Some(s) = s {
            o.push(("elapsed_seconds".to_string(), J::U(s as u64)));
        }
        leaf_extension(&mut o, seed, &["_tz", "elapsed_weeks", "_ext"]);
        shuffle(&mut o, seed);
        r.push(("daystart".into(), J::O(o)));
    }
    r.push(("app".into(), J::A(x.apps.iter().map(|a| render_app(a, seed)).collect())));
    r.extend(x.junk.iter().cloned());
    shuffle(&mut r, seed);
    J::O(vec![("response".into(), J::O(r))])
}

fn extras_eq(want: &[(String, J)], got: &serde_json::Map<String, Value>, at: &str) -> Result<(), String> {
    let w: serde_json::Map<String, Value> = want.iter().map(|(k, v)| (k.clone(), v.to_value())).collect();
    if &w != got {
        return Err(format!("{at}: extension attributes {got:?}, document says {w:?}"));
    }
    Ok(())
}

/// Field-for-field comparison of the parsed response with the generated expectation.
pub fn compare(x: &XResp, r: &Response) -> Result<(), String> {
    macro_rules! eq {
        ($got:expr, $want:expr, $at:expr) => {
            if $got != $want {
                return Err(format!("{}: parsed {:?}, document says {:?}", $at, $got, $want));
            }
        };
    }
    eq!(r.protocol_version, x.protocol, "protocol");
    eq!(r.server, x.server, "server");
    eq!(r.daystart.as_ref().map(|d| (d.elapsed_days, d.elapsed_seconds)), x.daystart, "daystart");
    eq!(r.apps.len(), x.apps.len(), "app count");
    for (i, (ga, xa)) in r.apps.iter().zip(&x.apps).enumerate() {
        let at = format!("app[{i}]");
        eq!(ga.id, xa.id, format!("{at}.appid"));
        eq!(ga.status, expected_status(&xa.status), format!("{at}.status"));
        eq!([ga.cohort.id.clone(), ga.cohort.hint.clone(), ga.cohort.name.clone()], xa.cohort, format!("{at}.cohort fields"));
        let want_ping = xa.ping.as_ref().map(|s| format!("Ping {{ status: {:?} }}", expected_status(s)));
        eq!(ga.ping.as_ref().map(|p| format!("{p:?}")), want_ping, format!("{at}.ping"));
        eq!(ga.events.as_ref().map(|v| v.iter().map(|e| e.status.clone()).collect::<Vec<_>>()), xa.events.as_ref().map(|v| v.iter().map(|s| expected_status(s)).collect::<Vec<_>>()), format!("{at}.event"));
        extras_eq(&xa.extra, &ga.extra_attributes, &at)?;
        eq!(ga.update_check.is_some(), xa.uc.is_some(), format!("{at}.updatecheck presence"));
        if let (Some(gu), Some(xu)) = (&ga.update_check, &xa.uc) {
            let at = format!("{at}.updatecheck");
            eq!(gu.status, expected_status(&xu.status), format!("{at}.status"));
            eq!(gu.info, xu.info, format!("{at}.info"));
            eq!(gu.urls.as_ref().map(|u| u.url.iter().map(|c| c.codebase.clone()).collect::<Vec<_>>()), xu.urls, format!("{at}.urls"));
            extras_eq(&xu.extra, &gu.extra_attributes, &at)?;
            eq!(gu.manifest.is_some(), xu.manifest.is_some(), format!("{at}.manifest presence"));
            eq!(ga.get_manifest_version(), xu.manifest.as_ref().map(|m| m.version.clone()), format!("{at} get_manifest_version"));
            if let (Some(gm), Some(xm)) = (&gu.manifest, &xu.manifest) {
                eq!(gm.version, xm.version, format!("{at}.manifest.version"));
                eq!(gm.actions.action.len(), xm.actions.len(), format!("{at}.manifest.actions count"));
                for (j, (gact, xact)) in gm.actions.action.iter().zip(&xm.actions).enumerate() {
                    eq!(gact.event, xact.event, format!("{at}.action[{j}].event"));
                    eq!(gact.run, xact.run, format!("{at}.action[{j}].run"));
                    extras_eq(&xact.extra, &gact.extra_attributes, &format!("{at}.action[{j}]"))?;
                }
                eq!(gm.packages.package.len(), xm.packages.len(), format!("{at}.manifest.packages count"));
                for (j, (gp, xp)) in gm.packages.package.iter().zip(&xm.packages).enumerate() {
                    let at = format!("{at}.package[{j}]");
                    eq!(gp.name, xp.name, format!("{at}.name"));
                    eq!(gp.required, xp.required, format!("{at}.required"));
                    eq!(gp.size.map(u64::from), xp.size, format!("{at}.size"));
                    eq!(gp.hash, xp.hash, format!("{at}.hash"));
                    eq!(gp.hash_sha256, xp.hash_sha256, format!("{at}.hash_sha256"));
                    eq!(gp.fingerprint, xp.fp, format!("{at}.fp"));
                    extras_eq(&xp.extra, &gp.extra_attributes, &at)?;
                }
            }
            // full URLs: every codebase joined with every package name, in order
            let mut want_urls = vec![];
            for c in xu.urls.iter().flatten() {
                for p in xu.manifest.iter().flat_map(|m| &m.packages) {
                    want_urls.push(format!("{c}{}", p.name));
                }
            }
            eq!(gu.get_all_full_urls().collect::<Vec<_>>(), want_urls, format!("{at} get_all_full_urls"));
            eq!(gu.get_all_url_codebases().map(|s| s.to_string()).collect::<Vec<_>>(), xu.urls.clone().unwrap_or_default(), format!("{at} get_all_url_codebases"));
            eq!(gu.get_all_packages().map(|p| p.name.clone()).collect::<Vec<_>>(), xu.manifest.iter().flat_map(|m| &m.packages).map(|p| p.name.clone()).collect::<Vec<_>>(), format!("{at} get_all_packages"));
        }
    }
    Ok(())
}

//! Choice-sequence ("tape") generators.
//!
//! Every generated case is decoded from a finite sequence of `u32` choices.  When the tape is
//! exhausted every draw returns 0 and every generator is written so that 0 is the simplest
//! choice, so shrinking the tape (dropping elements, lowering elements) shrinks the case.
//! Index mapping is monotone (`(x * n) >> 32`), never `%`.

#[derive(Clone, Debug)]
pub struct Tape {
    data: Vec<u32>,
    pos: usize,
}

impl Tape {
    pub fn new(data: Vec<u32>) -> Self {
        Tape { data, pos: 0 }
    }
    pub fn from_bytes(b: &[u8]) -> Self {
        let mut data = Vec::with_capacity(b.len() / 4 + 1);
        for c in b.chunks(4) {
            let mut w = [0u8; 4];
            w[..c.len()].copy_from_slice(c);
            data.push(u32::from_le_bytes(w));
        }
        Tape::new(data)
    }
    pub fn data(&self) -> &[u32] {
        &self.data
    }
    pub fn consumed(&self) -> usize {
        self.pos
    }
    pub fn exhausted(&self) -> bool {
        self.pos >= self.data.len()
    }
    pub fn raw(&mut self) -> u32 {
        let v = self.data.get(self.pos).copied().unwrap_or(0);
        self.pos += 1;
        v
    }
    /// uniform in 0..n, monotone in the raw value; n == 0 yields 0
    pub fn choose(&mut self, n: usize) -> usize {
        if n <= 1 {
            // still consume so that tapes stay aligned when a bound changes
            self.raw();
            return 0;
        }
        ((self.raw() as u64 * n as u64) >> 32) as usize
    }
    /// The raw value that makes `choose(n)` return `i`.
    pub fn encode_choice(i: usize, n: usize) -> u32 {
        if n <= 1 {
            return 0;
        }
        let num = (i as u128) << 32;
        let r = (num + n as u128 - 1) / n as u128;
        r.min(u32::MAX as u128) as u32
    }
    pub fn flag(&mut self) -> bool {
        self.choose(2) == 1
    }
    /// true with probability num/den; 0 => false
    pub fn chance(&mut self, num: u32, den: u32) -> bool {
        let v = self.choose(den as usize) as u32;
        v >= den - num
    }
    /// index into weights; index 0 is the simplest and should be the "default"
    pub fn weighted(&mut self, weights: &[u32]) -> usize {
        let total: u64 = weights.iter().map(|w| *w as u64).sum();
        if total == 0 {
            self.raw();
            return 0;
        }
        let mut x = (self.raw() as u64 * total) >> 32;
        for (i, w) in weights.iter().enumerate() {
            if x < *w as u64 {
                return i;
            }
            x -= *w as u64;
        }
        weights.len() - 1
    }
    pub fn pick<'a, T>(&mut self, xs: &'a [T]) -> &'a T {
        &xs[self.choose(xs.len())]
    }
    /// inclusive range
    pub fn range(&mut self, lo: u64, hi: u64) -> u64 {
        debug_assert!(lo <= hi);
        let span = hi - lo;
        if span == u64::MAX {
            return self.u64_full();
        }
        let n = span + 1;
        if n <= u32::MAX as u64 {
            lo + self.choose(n as usize) as u64
        } else {
            let x = self.u64_full() as u128;
            lo + ((x * n as u128) >> 64) as u64
        }
    }
    pub fn u64_full(&mut self) -> u64 {
        let hi = self.raw() as u64;
        let lo = self.raw() as u64;
        (hi << 32) | lo
    }
    /// u32 biased toward small values and boundaries
    pub fn u32_biased(&mut self) -> u32 {
        match self.choose(5) {
            0 => self.choose(11) as u32,
            1 => *self.pick(&[0, 1, 9, 10, 99, 100, 255, 256, 65535, 65536, u32::MAX - 1, u32::MAX]),
            2 => self.raw() >> 16,
            3 => self.raw() >> 24,
            _ => self.raw(),
        }
    }
    /// u64 biased toward small values and boundaries
    pub fn u64_biased(&mut self) -> u64 {
        match self.choose(6) {
            0 => self.choose(11) as u64,
            1 => *self.pick(&[
                0,
                1,
                86399,
                86400,
                86401,
                u32::MAX as u64 - 1,
                u32::MAX as u64,
                u32::MAX as u64 + 1,
                i64::MAX as u64 - 1,
                i64::MAX as u64,
                i64::MAX as u64 + 1,
                u64::MAX - 1,
                u64::MAX,
            ]),
            2 => (self.raw() >> 16) as u64,
            3 => self.raw() as u64,
            4 => self.u64_full() >> 16,
            _ => self.u64_full(),
        }
    }
    pub fn i64_biased(&mut self) -> i64 {
        match self.choose(6) {
            0 => self.choose(11) as i64 - 5,
            1 => *self.pick(&[
                0,
                1,
                -1,
                999,
                1000,
                -999,
                -1000,
                -1001,
                i64::MIN,
                i64::MIN + 1,
                i64::MAX,
                i64::MAX - 1,
                u32::MAX as i64,
                u32::MAX as i64 + 1,
                -(u32::MAX as i64),
            ]),
            2 => (self.raw() >> 12) as i64 - (1 << 19),
            3 => self.raw() as i64 - (1i64 << 31),
            4 => (self.u64_full() >> 12) as i64 - (1i64 << 51),
            _ => self.u64_full() as i64,
        }
    }
    pub fn bytes(&mut self, max: usize) -> Vec<u8> {
        let n = self.choose(max + 1);
        let mut v = Vec::with_capacity(n);
        while v.len() < n {
            let w = self.raw().to_le_bytes();
            for b in w {
                if v.len() < n {
                    v.push(b);
                }
            }
        }
        v
    }
    /// string over the given alphabet
    pub fn string_of(&mut self, alphabet: &[char], max: usize) -> String {
        let n = self.choose(max + 1);
        (0..n).map(|_| *self.pick(alphabet)).collect()
    }
    pub fn ident(&mut self, max: usize) -> String {
        const A: &[char] = &[
            'a', 'b', 'c', 'x', 'y', 'z', '0', '1', '9', '-', '_', '.', 'A', 'Z',
        ];
        let n = 1 + self.choose(max.max(1));
        (0..n).map(|_| *self.pick(A)).collect()
    }
    /// text with JSON-special / unicode characters
    pub fn text(&mut self, max: usize) -> String {
        const A: &[char] = &[
            'a', 'b', 'z', '0', '9', ' ', '-', '.', ':', '/', '"', '\\', '\n', '\t', '{', '}', '[', ']',
            ',', '\u{e9}', '\u{4e2d}', '\u{1f600}', '\u{7f}', '\u{1}', '+', '%', '&', '=', '?',
        ];
        self.string_of(A, max)
    }
    /// like `text`, with upper-case letters (also ones whose case mapping changes the length) in the alphabet
    pub fn text_mixed(&mut self, max: usize) -> String {
        const A: &[char] = &[
            'a', 'b', 'z', '0', '9', ' ', '-', '.', ':', '/', '"', '\\', '\n', '\t', '{', '}', '[', ']',
            ',', '\u{e9}', '\u{4e2d}', '\u{1f600}', '\u{7f}', '\u{1}', '+', '%', '&', '=', '?',
            'A', 'Q', 'Z', '\u{c9}', '\u{130}', '\u{df}',
        ];
        self.string_of(A, max)
    }
    pub fn option<T>(&mut self, f: impl FnOnce(&mut Tape) -> T) -> Option<T> {
        if self.flag() {
            Some(f(self))
        } else {
            None
        }
    }
    pub fn vec_of<T>(&mut self, max: usize, mut f: impl FnMut(&mut Tape) -> T) -> Vec<T> {
        let n = self.choose(max + 1);
        (0..n).map(|_| f(self)).collect()
    }
}

#[cfg(test)]
mod tests {
    use super::*;
    #[test]
    fn encode_roundtrip() {
        for n in [2usize, 3, 5, 7, 16, 100, 1000, 65537] {
            for i in 0..n.min(200) {
                let mut t = Tape::new(vec![Tape::encode_choice(i, n)]);
                assert_eq!(t.choose(n), i, "n={n} i={i}");
            }
            let mut t = Tape::new(vec![Tape::encode_choice(n - 1, n)]);
            assert_eq!(t.choose(n), n - 1);
        }
    }
}

//! Service-URL grammar generator and an independent splitter (scheme / authority / path / query),
//! used by C03, C15 and C17.  Only strings `http::Uri` accepts are produced (the configured service
//! URL is parsed by the library with `http::Uri`; anything else yields an error, not a request).

use crate::tape::Tape;

#[derive(Clone, Debug, PartialEq, Eq)]
pub struct UrlParts {
    pub scheme: String,
    pub authority: String,
    /// "" when the path is absent
    pub path: String,
    /// None when there is no '?', Some("") for an empty query
    pub query: Option<String>,
}

#[derive(Clone, Debug)]
pub struct GenUrl {
    pub text: String,
    pub parts: UrlParts,
    pub classes: Vec<&'static str>,
}

pub fn gen_url(t: &mut Tape) -> GenUrl {
    let mut classes = vec![];
    let scheme = if t.flag() { "https" } else { "http" }.to_string();
    let host = match t.weighted(&[4, 2, 2, 1, 1]) {
        0 => t.pick(&["example.com", "omaha.test", "a.b-c.d", "localhost", "x", "Omaha.Example.COM", "UPPER.test"]).to_string(),
        1 => {
            classes.push("ipv4");
            format!("{}.{}.{}.{}", t.choose(256), t.choose(256), t.choose(256), t.choose(256))
        }
        2 => {
            classes.push("ipv6");
            t.pick(&["[::1]", "[2001:db8::1]", "[fe80::1234:5678:9abc:def0]", "[::ffff:192.0.2.1]", "[2001:DB8::1]", "[FE80::ABCD]"]).to_string()
        }
        3 => {
            classes.push("ipv6_zone");
            // percent-encoded zone id, as the repository's own test uses
            t.pick(&["[::1%eth0]", "[fe80::1%25eth0]", "[::1%25lo]", "[fe80::1%wlP1p1s0]", "[::1%25Eth0]"]).to_string()
        }
        _ => {
            const A: &[char] = &['a', 'z', '0', '9', '-', '.'];
            let s = t.string_of(A, 10);
            format!("h{s}x")
        }
    };
    let userinfo = if t.chance(1, 6) {
        classes.push("userinfo");
        t.pick(&["user@", "u:p@", "a.b@", "User:PW@"]).to_string()
    } else {
        String::new()
    };
    let port = if t.chance(1, 3) {
        classes.push("port");
        format!(":{}", t.pick(&[1u32, 80, 443, 8080, 65535]))
    } else {
        String::new()
    };
    let authority = format!("{userinfo}{host}{port}");
    let path = match t.weighted(&[3, 3, 4]) {
        0 => {
            classes.push("path_absent");
            String::new()
        }
        1 => "/".to_string(),
        _ => {
            classes.push("path_segments");
            let n = 1 + t.choose(3);
            let mut p = String::new();
            for _ in 0..n {
                p.push('/');
                const A: &[char] = &['a', 'b', 'z', '0', '9', '-', '_', '.', '~', ':', '@', '!', '$', '\'', '(', ')', '*', '+', ',', ';', '='];
                p.push_str(&t.string_of(A, 6));
                if t.chance(1, 5) {
                    p.push_str(*t.pick(&["%20", "%2F", "%3f", "%25"]));
                }
            }
            if t.flag() {
                p.push('/');
            }
            p
        }
    };
    let query = match t.weighted(&[4, 1, 3, 1]) {
        0 => None,
        1 => {
            classes.push("query_empty");
            Some(String::new())
        }
        2 => {
            classes.push("query_pairs");
            let n = 1 + t.choose(3);
            let pairs: Vec<String> = (0..n)
                .map(|_| {
                    const A: &[char] = &['a', 'k', 'v', '0', '9', '-', '_', '.', '%', '2', 'F'];
                    let k = t.string_of(&A[..8], 4);
                    let mut v = t.string_of(&A[..8], 5);
                    // percent-escapes inside an existing query value: kept byte for byte (never encoded again)
                    if t.chance(1, 3) {
                        v.push_str(*t.pick(&["%20", "%2F", "%3f", "%25", "%C3%A9", "a%20b%2Fc"]));
                    }
                    format!("k{k}={v}")
                })
                .collect();
            Some(pairs.join("&"))
        }
        _ => {
            classes.push("query_decoy_cup2key");
            Some(format!("cup2key={}:{}", t.choose(100), "0".repeat(t.choose(3) * 32)))
        }
    };
    let mut text = format!("{scheme}://{authority}{path}");
    if let Some(q) = &query {
        text.push('?');
        text.push_str(q);
    }
    GenUrl { text, parts: UrlParts { scheme, authority, path, query }, classes }
}

/// Independent split of an absolute http(s) URL string as it appears on the wire.
pub fn split_url(s: &str) -> Option<UrlParts> {
    let (scheme, rest) = s.split_once("://")?;
    let (before_q, query) = match rest.split_once('?') {
        Some((a, q)) => (a, Some(q.to_string())),
        None => (rest, None),
    };
    let (authority, path) = match before_q.find('/') {
        Some(i) => (&before_q[..i], &before_q[i..]),
        None => (before_q, ""),
    };
    Some(UrlParts { scheme: scheme.to_string(), authority: authority.to_string(), path: path.to_string(), query })
}

/// empty path and "/" are the same resource
pub fn same_path(a: &str, b: &str) -> bool {
    let n = |p: &str| if p.is_empty() { "/".to_string() } else { p.to_string() };
    n(a) == n(b)
}

//! Verification harness for google/omaha-client: property-based testing and fuzzing.
pub mod cupref;
pub mod engine;
pub mod jsongen;
pub mod model;
pub mod props;
pub mod respgen;
pub mod sim;
pub mod tape;
pub mod urlref;

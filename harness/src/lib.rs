//! Verification harness for google/omaha-client: property-based testing and fuzzing.
pub mod cupref;
pub mod engine;
pub mod props;
pub mod tape;
pub mod urlref;

//! Drivers (proptest random search, bounded exhaustive enumeration, replay), statistics,
//! evidence and known-findings plumbing shared by all property checks.

use crate::tape::Tape;
use proptest::{
    collection::vec,
    prelude::*,
    test_runner::{Config, RngSeed, TestCaseError, TestError, TestRunner},
};
use serde_json::{json, Value};
use std::{
    cell::RefCell,
    collections::{hash_map::DefaultHasher, BTreeMap, HashSet},
    hash::{Hash, Hasher},
    panic::{catch_unwind, AssertUnwindSafe},
    path::PathBuf,
    sync::{
        atomic::{AtomicBool, Ordering},
        Mutex, Once,
    },
    time::Instant,
};

pub fn root() -> PathBuf {
    PathBuf::from(std::env::var("VERIF_ROOT").unwrap_or_else(|_| "/verif".to_string()))
}

pub fn hash_of<T: Hash + ?Sized>(t: &T) -> u64 {
    let mut h = DefaultHasher::new();
    t.hash(&mut h);
    h.finish()
}

pub fn lock<T>(m: &Mutex<T>) -> std::sync::MutexGuard<'_, T> {
    m.lock().unwrap_or_else(|e| e.into_inner())
}

// ---------------------------------------------------------------------------------------------
// panic capture

thread_local! {
    static LAST_PANIC: RefCell<Option<(String, String)>> = const { RefCell::new(None) };
}
static HOOK: Once = Once::new();

pub fn install_panic_hook() {
    HOOK.call_once(|| {
        let verbose = std::env::var("VERIF_PANIC_VERBOSE").is_ok();
        std::panic::set_hook(Box::new(move |info| {
            let loc = info
                .location()
                .map(|l| format!("{}:{}", l.file(), l.line()))
                .unwrap_or_else(|| "?".into());
            let msg = if let Some(s) = info.payload().downcast_ref::<&str>() {
                s.to_string()
            } else if let Some(s) = info.payload().downcast_ref::<String>() {
                s.clone()
            } else {
                "<non-string panic>".into()
            };
            if verbose {
                eprintln!("panic at {loc}: {msg}");
            }
            LAST_PANIC.with(|p| *p.borrow_mut() = Some((loc, msg)));
        }));
    });
}

/// Run `f`, turning an unwind into `Err((location, message))`.
pub fn catch<T>(f: impl FnOnce() -> T) -> Result<T, (String, String)> {
    install_panic_hook();
    LAST_PANIC.with(|p| *p.borrow_mut() = None);
    match catch_unwind(AssertUnwindSafe(f)) {
        Ok(v) => Ok(v),
        Err(_) => Err(LAST_PANIC
            .with(|p| p.borrow_mut().take())
            .unwrap_or_else(|| ("?".into(), "?".into()))),
    }
}

/// The panic recorded by the hook since the last `catch` (a panic inside a spawned task is swallowed by the runtime).
pub fn take_last_panic() -> Option<(String, String)> {
    LAST_PANIC.with(|p| p.borrow_mut().take())
}

/// Strip the absolute prefix so signatures are stable across checkouts.
pub fn short_loc(loc: &str) -> String {
    if let Some(i) = loc.find("omaha-client/src/") {
        return loc[i..].to_string();
    }
    if let Some(i) = loc.find("mock-omaha-server/src/") {
        return loc[i..].to_string();
    }
    if let Some(i) = loc.find("/registry/src/") {
        let rest = &loc[i + "/registry/src/".len()..];
        if let Some(j) = rest.find('/') {
            return rest[j + 1..].to_string();
        }
    }
    loc.to_string()
}

// ---------------------------------------------------------------------------------------------
// case results

pub struct CaseCtx {
    pub want_sample: bool,
    pub replay: bool,
}

#[derive(Default)]
pub struct CaseReport {
    /// hash of the canonicalised case (for distinct counting)
    pub key: u64,
    pub nontrivial: bool,
    pub classes: Vec<&'static str>,
    pub sample: Option<Value>,
    /// the statement leaves the verdict for this case open; excluded from the oracle
    pub ambiguous: bool,
}

#[derive(Clone, Debug)]
pub struct Failure {
    /// stable identification of what failed (used to match known findings)
    pub signature: String,
    pub message: String,
    pub case: Value,
}

impl Failure {
    pub fn new(signature: impl Into<String>, message: impl Into<String>, case: Value) -> Self {
        Failure {
            signature: signature.into(),
            message: message.into(),
            case,
        }
    }
}

pub type CaseResult = Result<CaseReport, Failure>;
pub type CaseFn<'a> = &'a (dyn Fn(&mut Tape, &CaseCtx) -> CaseResult + Sync);

// ---------------------------------------------------------------------------------------------
// known findings

#[derive(Clone, Debug)]
pub struct KnownFinding {
    pub status: String,
    pub property: String,
    pub signature: String,
    pub description: String,
}

pub fn load_known_findings() -> Vec<KnownFinding> {
    let p = root().join("known_findings.json");
    let Ok(s) = std::fs::read_to_string(&p) else {
        return vec![];
    };
    let v: Value = serde_json::from_str(&s).expect("known_findings.json must be valid JSON");
    v["findings"]
        .as_array()
        .cloned()
        .unwrap_or_default()
        .iter()
        .map(|f| KnownFinding {
            status: f["status"].as_str().unwrap_or("").to_string(),
            property: f["property"].as_str().unwrap_or("").to_string(),
            signature: f["signature"].as_str().unwrap_or("").to_string(),
            description: f["description"].as_str().unwrap_or("").to_string(),
        })
        .collect()
}

/// Is this failure signature a recorded, still-open finding for the property?
pub fn is_known(property: &str, signature: &str) -> bool {
    load_known_findings().iter().any(|k| k.status == "known" && k.property == property && k.signature == signature)
}

// ---------------------------------------------------------------------------------------------
// statistics

#[derive(Default)]
pub struct Stats {
    pub evaluations: u64,
    pub nontrivial: HashSet<u64>,
    pub distinct: HashSet<u64>,
    pub classes: BTreeMap<&'static str, u64>,
    pub samples: Vec<Value>,
    pub ambiguous: u64,
    pub known_excluded: BTreeMap<String, u64>,
}

impl Stats {
    fn absorb(&mut self, r: CaseReport, max_samples: usize) {
        self.evaluations += 1;
        self.distinct.insert(r.key);
        if r.ambiguous {
            self.ambiguous += 1;
        }
        if r.nontrivial && !r.ambiguous {
            self.nontrivial.insert(r.key);
        }
        for c in r.classes {
            *self.classes.entry(c).or_insert(0) += 1;
        }
        if let Some(s) = r.sample {
            if self.samples.len() < max_samples {
                self.samples.push(s);
            }
        }
    }
    fn merge(&mut self, o: Stats, max_samples: usize) {
        self.evaluations += o.evaluations;
        self.nontrivial.extend(o.nontrivial);
        self.distinct.extend(o.distinct);
        for (k, v) in o.classes {
            *self.classes.entry(k).or_insert(0) += v;
        }
        for s in o.samples {
            if self.samples.len() < max_samples {
                self.samples.push(s);
            }
        }
        self.ambiguous += o.ambiguous;
        for (k, v) in o.known_excluded {
            *self.known_excluded.entry(k).or_insert(0) += v;
        }
    }
}

pub struct Violation {
    pub failure: Failure,
    pub tape: Vec<u32>,
    pub phase: String,
    pub driver: &'static str,
}

pub struct Run {
    pub id: String,
    pub tier: String,
    pub seed: u64,
    pub level: &'static str,
    pub threads: usize,
    /// wall-clock budget for shrinking one failure (ms); shrinking only minimises, it never decides
    pub shrink_ms: u32,
    started: Instant,
    stats: Stats,
    phases: Vec<Value>,
    exhaustive_subspaces: Vec<Value>,
    extra: BTreeMap<String, Value>,
    violations: Vec<Violation>,
    known: Vec<KnownFinding>,
    inconclusive: Vec<String>,
    all_exhaustive: bool,
    any_phase: bool,
}

const MAX_SAMPLES: usize = 6;

impl Run {
    pub fn new(id: &str, tier: &str, level: &'static str) -> Run {
        install_panic_hook();
        let seed = std::env::var("VERIF_SEED")
            .ok()
            .and_then(|s| s.trim().parse::<i128>().ok())
            .map(|v| v as u64)
            .unwrap_or(0);
        let threads = std::env::var("VERIF_THREADS")
            .ok()
            .and_then(|s| s.parse().ok())
            .unwrap_or_else(|| {
                std::thread::available_parallelism()
                    .map(|n| n.get())
                    .unwrap_or(4)
                    .min(16)
            });
        let known = load_known_findings()
            .into_iter()
            .filter(|k| k.property == id)
            .collect();
        let wd: u64 = std::env::var("VERIF_WATCHDOG_S")
            .ok()
            .and_then(|s| s.parse().ok())
            .unwrap_or(if tier == "quick" { 1500 } else { 7200 });
        let idc = id.to_string();
        std::thread::spawn(move || {
            std::thread::sleep(std::time::Duration::from_secs(wd));
            println!("INCONCLUSIVE property={idc} reason=watchdog after {wd}s (not a violation)");
            std::process::exit(2);
        });
        Run {
            id: id.to_string(),
            tier: tier.to_string(),
            seed,
            level,
            threads,
            shrink_ms: 8000,
            started: Instant::now(),
            stats: Stats::default(),
            phases: vec![],
            exhaustive_subspaces: vec![],
            extra: BTreeMap::new(),
            violations: vec![],
            known,
            inconclusive: vec![],
            all_exhaustive: true,
            any_phase: false,
        }
    }

    pub fn is_quick(&self) -> bool {
        self.tier == "quick"
    }
    /// pick by tier
    pub fn n(&self, quick: usize, thorough: usize) -> usize {
        let n = if self.is_quick() { quick } else { thorough };
        // VERIF_SCALE_PCT: only for tools/coverage.sh (an instrumented build is 10-50x slower); registered checks never set it
        match std::env::var("VERIF_SCALE_PCT").ok().and_then(|s| s.parse::<usize>().ok()) {
            Some(pct) => (n * pct / 100).max(1),
            None => n,
        }
    }
    pub fn note(&mut self, key: &str, v: Value) {
        self.extra.insert(key.to_string(), v);
    }
    pub fn inconclusive(&mut self, why: String) {
        self.inconclusive.push(why);
    }
    pub fn has_violation(&self) -> bool {
        !self.violations.is_empty()
    }
    pub fn elapsed(&self) -> f64 {
        self.started.elapsed().as_secs_f64()
    }

    fn known_status(&self, sig: &str) -> Option<&KnownFinding> {
        self.known
            .iter()
            .find(|k| k.status == "known" && k.signature == sig)
    }

    /// Wrap a case function: catch panics, apply known-findings.
    fn eval(&self, f: CaseFn, tape: &[u32], ctx: &CaseCtx, stats: &mut Stats) -> Result<(), Failure> {
        let mut t = Tape::new(tape.to_vec());
        let res = match catch(|| f(&mut t, ctx)) {
            Ok(r) => r,
            Err((loc, msg)) => Err(Failure::new(
                format!("panic@{}", short_loc(&loc)),
                format!("panic at {loc}: {msg}"),
                json!({"tape": tape}),
            )),
        };
        match res {
            Ok(rep) => {
                stats.absorb(rep, MAX_SAMPLES);
                Ok(())
            }
            Err(fail) => {
                if self.known_status(&fail.signature).is_some() {
                    stats.evaluations += 1;
                    *stats.known_excluded.entry(fail.signature.clone()).or_insert(0) += 1;
                    Ok(())
                } else {
                    Err(fail)
                }
            }
        }
    }

    /// Committed regression inputs: /verif/replays/<ID>-*.json, run first in every tier.
    pub fn replay_committed(&mut self, f: CaseFn) {
        let dir = root().join("replays");
        let mut n = 0u64;
        let mut files: Vec<_> = std::fs::read_dir(&dir)
            .map(|d| d.filter_map(|e| e.ok()).map(|e| e.path()).collect())
            .unwrap_or_default();
        files.sort();
        for p in files {
            let name = p.file_name().unwrap().to_string_lossy().to_string();
            if !name.starts_with(&format!("{}-", self.id)) || !name.ends_with(".json") {
                continue;
            }
            let Ok(s) = std::fs::read_to_string(&p) else { continue };
            let Ok(v) = serde_json::from_str::<Value>(&s) else { continue };
            let tape: Vec<u32> = v["tape"]
                .as_array()
                .map(|a| a.iter().filter_map(|x| x.as_u64()).map(|x| x as u32).collect())
                .unwrap_or_default();
            let mut st = Stats::default();
            let ctx = CaseCtx { want_sample: false, replay: true };
            if let Err(fail) = self.eval(f, &tape, &ctx, &mut st) {
                self.violations.push(Violation {
                    failure: fail,
                    tape,
                    phase: format!("replay:{name}"),
                    driver: "replay",
                });
            }
            self.stats.merge(st, MAX_SAMPLES);
            n += 1;
        }
        self.phases.push(json!({"phase": "committed_replays", "cases": n}));
    }

    /// Random search with proptest generating and shrinking the tape; sharded over threads.
    pub fn random(&mut self, phase: &str, prefix: &[u32], cases: usize, tape_len: usize, f: CaseFn) {
        self.any_phase = true;
        self.all_exhaustive = false;
        let shards = self.threads.max(1).min(cases.max(1));
        let per = cases.div_ceil(shards);
        let stop = AtomicBool::new(false);
        let t0 = Instant::now();
        let results: Vec<(Stats, Option<(Failure, Vec<u32>)>)> = std::thread::scope(|s| {
            let handles: Vec<_> = (0..shards)
                .map(|shard| {
                    let stop = &stop;
                    let this = &*self;
                    let phase = phase.to_string();
                    std::thread::Builder::new()
                        .stack_size(16 << 20)
                        .spawn_scoped(s, move || {
                            let seed = hash_of(&(this.seed, &this.id, &phase, shard as u64));
                            let mut runner = TestRunner::new(Config {
                                cases: per as u32,
                                failure_persistence: None,
                                rng_seed: RngSeed::Fixed(seed),
                                max_shrink_iters: 3000,
                                max_shrink_time: this.shrink_ms,
                                max_global_rejects: 1 << 30,
                                verbose: 0,
                                ..Config::default()
                            });
                            let stats = RefCell::new(Stats::default());
                            let failed = RefCell::new(None::<Failure>);
                            let count = RefCell::new(0usize);
                            let r = runner.run(&vec(any::<u32>(), (tape_len / 3)..=tape_len), |tail| {
                                let mut tape = prefix.to_vec();
                                tape.extend_from_slice(&tail);
                                if stop.load(Ordering::Relaxed) && failed.borrow().is_none() {
                                    // another shard failed: finish quickly (still counted as not run)
                                    return Ok(());
                                }
                                let shrinking = failed.borrow().is_some();
                                let mut scratch = Stats::default();
                                let want_sample = {
                                    let c = *count.borrow();
                                    shard == 0 && !shrinking && (c < 3 || (c % 97 == 0 && c < 400))
                                };
                                let ctx = CaseCtx { want_sample, replay: false };
                                let res = this.eval(f, &tape, &ctx, &mut scratch);
                                if !shrinking {
                                    *count.borrow_mut() += 1;
                                    if res.is_ok() {
                                        stats.borrow_mut().merge(scratch, MAX_SAMPLES);
                                    } else {
                                        stats.borrow_mut().evaluations += 1;
                                    }
                                }
                                match res {
                                    Ok(()) => Ok(()),
                                    Err(fail) => {
                                        // keep shrinking toward the same signature only
                                        let keep = match &*failed.borrow() {
                                            None => true,
                                            Some(first) => first.signature == fail.signature,
                                        };
                                        if keep {
                                            stop.store(true, Ordering::Relaxed);
                                            let msg = fail.message.clone();
                                            *failed.borrow_mut() = Some(fail);
                                            Err(TestCaseError::fail(msg))
                                        } else {
                                            Ok(())
                                        }
                                    }
                                }
                            });
                            let fail = match r {
                                Ok(()) => None,
                                Err(TestError::Fail(_, tail)) => {
                                    let mut tape = prefix.to_vec();
                                    tape.extend_from_slice(&tail);
                                    // re-evaluate the minimal tape to obtain its own failure record
                                    let mut scratch = Stats::default();
                                    let ctx = CaseCtx { want_sample: true, replay: true };
                                    match this.eval(f, &tape, &ctx, &mut scratch) {
                                        Err(fl) => Some((fl, tape)),
                                        Ok(()) => failed.borrow_mut().take().map(|fl| {
                                            let mut fl = fl;
                                            fl.message = format!(
                                                "{} (note: minimal tape did not fail again on re-evaluation; non-deterministic?)",
                                                fl.message
                                            );
                                            (fl, tape)
                                        }),
                                    }
                                }
                                Err(TestError::Abort(why)) => Some((
                                    Failure::new("engine-abort", format!("proptest aborted: {why}"), json!(null)),
                                    vec![],
                                )),
                            };
                            (stats.into_inner(), fail)
                        })
                        .unwrap()
                })
                .collect();
            handles.into_iter().map(|h| h.join().unwrap()).collect()
        });
        let mut n = 0;
        let mut seen_sigs: HashSet<String> =
            self.violations.iter().map(|v| v.failure.signature.clone()).collect();
        for (st, fail) in results {
            n += st.evaluations;
            self.stats.merge(st, MAX_SAMPLES);
            if let Some((fl, tape)) = fail {
                if fl.signature == "engine-abort" {
                    self.inconclusive.push(fl.message.clone());
                    continue;
                }
                if seen_sigs.insert(fl.signature.clone()) {
                    self.violations.push(Violation {
                        failure: fl,
                        tape,
                        phase: phase.to_string(),
                        driver: "proptest",
                    });
                }
            }
        }
        self.phases.push(json!({"phase": phase, "driver": "proptest", "cases": n, "tape_len": tape_len,
            "shards": shards, "wall_s": t0.elapsed().as_secs_f64()}));
    }

    /// Bounded exhaustive enumeration: every combination of `dims` (an odometer writes the tape).
    /// The case function must draw exactly `choose(dims[i])` for its first `dims.len()` draws.
    pub fn enumerate(&mut self, phase: &str, prefix: &[u32], dims: &[usize], f: CaseFn) {
        self.any_phase = true;
        let total: usize = dims.iter().product();
        let shards = self.threads.max(1).min(total.max(1));
        let t0 = Instant::now();
        let results: Vec<(Stats, Option<(Failure, Vec<u32>)>)> = std::thread::scope(|s| {
            let handles: Vec<_> = (0..shards)
                .map(|shard| {
                    let this = &*self;
                    std::thread::Builder::new()
                        .stack_size(16 << 20)
                        .spawn_scoped(s, move || {
                            let mut stats = Stats::default();
                            let mut fail = None;
                            let mut idx = shard;
                            while idx < total {
                                let mut rem = idx;
                                let mut tail = Vec::with_capacity(dims.len());
                                for d in dims.iter().rev() {
                                    tail.push(Tape::encode_choice(rem % d, *d));
                                    rem /= d;
                                }
                                tail.reverse();
                                let mut tape = prefix.to_vec();
                                tape.extend(tail);
                                let ctx = CaseCtx {
                                    want_sample: shard == 0 && (idx / shards) % 211 == 0,
                                    replay: false,
                                };
                                if let Err(fl) = this.eval(f, &tape, &ctx, &mut stats) {
                                    stats.evaluations += 1;
                                    if fail.is_none() {
                                        fail = Some((fl, tape));
                                    }
                                }
                                idx += shards;
                            }
                            (stats, fail)
                        })
                        .unwrap()
                })
                .collect();
            handles.into_iter().map(|h| h.join().unwrap()).collect()
        });
        let mut n = 0;
        let mut seen_sigs: HashSet<String> =
            self.violations.iter().map(|v| v.failure.signature.clone()).collect();
        for (st, fail) in results {
            n += st.evaluations;
            self.stats.merge(st, MAX_SAMPLES);
            if let Some((fl, tape)) = fail {
                if seen_sigs.insert(fl.signature.clone()) {
                    self.violations.push(Violation { failure: fl, tape, phase: phase.to_string(), driver: "enum" });
                }
            }
        }
        self.exhaustive_subspaces.push(json!({"name": phase, "dims": dims, "size": total, "complete": n as usize == total}));
        self.phases.push(json!({"phase": phase, "driver": "enum", "cases": n, "wall_s": t0.elapsed().as_secs_f64()}));
    }

    /// Explicit list of tapes (e.g. boundary grids).
    pub fn explicit(&mut self, phase: &str, tapes: Vec<Vec<u32>>, f: CaseFn) {
        self.any_phase = true;
        let t0 = Instant::now();
        let mut n = 0;
        let mut st = Stats::default();
        for (i, tape) in tapes.iter().enumerate() {
            let ctx = CaseCtx { want_sample: i % 53 == 0, replay: false };
            n += 1;
            if let Err(fl) = self.eval(f, tape, &ctx, &mut st) {
                if !self.violations.iter().any(|v| v.failure.signature == fl.signature) {
                    self.violations.push(Violation { failure: fl, tape: tape.clone(), phase: phase.to_string(), driver: "explicit" });
                }
            }
        }
        self.stats.merge(st, MAX_SAMPLES);
        self.exhaustive_subspaces.push(json!({"name": phase, "size": n, "complete": true}));
        self.phases.push(json!({"phase": phase, "driver": "explicit", "cases": n, "wall_s": t0.elapsed().as_secs_f64()}));
    }

    /// Fixed regression inputs that bypass the generators (shrunk failures of earlier findings, boundary cases).
    pub fn fixed(&mut self, phase: &str, cases: Vec<(String, Box<dyn Fn() -> CaseResult + '_>)>) {
        self.any_phase = true;
        let mut n = 0;
        for (label, f) in cases {
            n += 1;
            let res = match catch(|| f()) {
                Ok(r) => r,
                Err((loc, msg)) => Err(Failure::new(format!("panic@{}", short_loc(&loc)), format!("panic at {loc}: {msg}"), json!({"fixed_case": label}))),
            };
            match res {
                Ok(rep) => self.stats.absorb(rep, MAX_SAMPLES),
                Err(mut fl) => {
                    self.stats.evaluations += 1;
                    fl.message = format!("[fixed regression case '{label}'] {}", fl.message);
                    self.add_violation(phase, fl, vec![]);
                }
            }
        }
        self.phases.push(json!({"phase": phase, "driver": "fixed", "cases": n}));
    }

    /// Record a violation found by a custom phase (e.g. a statistical check or a fuzz campaign).
    pub fn add_violation(&mut self, phase: &str, fl: Failure, tape: Vec<u32>) {
        if self.known_status(&fl.signature).is_some() {
            *self.stats.known_excluded.entry(fl.signature.clone()).or_insert(0) += 1;
            return;
        }
        if !self.violations.iter().any(|v| v.failure.signature == fl.signature) {
            self.violations.push(Violation { failure: fl, tape, phase: phase.to_string(), driver: "custom" });
        }
    }
    pub fn add_phase_note(&mut self, v: Value) {
        self.any_phase = true;
        self.all_exhaustive = false;
        self.phases.push(v);
    }
    pub fn add_evaluations(&mut self, n: u64) {
        self.stats.evaluations += n;
    }
    pub fn stats(&self) -> &Stats {
        &self.stats
    }

    /// Single replay of a saved tape (the `--replay` path): runs the case `reps` times.
    pub fn replay_file(&mut self, path: &str, reps: usize, f: CaseFn) -> i32 {
        let s = std::fs::read_to_string(path).expect("cannot read replay file");
        let v: Value = serde_json::from_str(&s).expect("replay file is not JSON");
        let tape: Vec<u32> = v["tape"]
            .as_array()
            .map(|a| a.iter().filter_map(|x| x.as_u64()).map(|x| x as u32).collect())
            .unwrap_or_default();
        for _ in 0..reps {
            let mut st = Stats::default();
            let ctx = CaseCtx { want_sample: true, replay: true };
            match self.eval(f, &tape, &ctx, &mut st) {
                Ok(()) => {
                    if let Some((sig, _)) = st.known_excluded.iter().next() {
                        println!("KNOWN-FINDING: property={} {}", self.id, sig);
                    }
                }
                Err(fl) => {
                    println!("replay FAILED: {}\n  signature: {}\n  case: {}", fl.message, fl.signature, fl.case);
                    println!("VIOLATION property={} replay={}", self.id, path);
                    return 1;
                }
            }
        }
        println!("replay passed ({} executions)", reps);
        0
    }

    /// Write evidence, print verdict lines, return the exit code.
    pub fn finish(mut self, rule: &str, floor_nontrivial: u64, assumptions: &[&str]) -> i32 {
        let wall = self.started.elapsed().as_secs_f64();
        let fail_dir = root().join("failures");
        let _ = std::fs::create_dir_all(&fail_dir);
        let mut code = 0;
        for (sig, n) in &self.stats.known_excluded {
            let d = self.known.iter().find(|k| &k.signature == sig).map(|k| k.description.clone()).unwrap_or_default();
            println!("KNOWN-FINDING: property={} {} ({} cases excluded) {}", self.id, sig, n, d);
        }
        for v in &self.violations {
            let h = hash_of(&(&v.failure.signature, &v.tape));
            let path = fail_dir.join(format!("{}-{:016x}.json", self.id, h));
            let doc = json!({
                "property": self.id, "seed": self.seed, "tier": self.tier, "driver": v.driver, "phase": v.phase,
                "tape": v.tape, "signature": v.failure.signature, "message": v.failure.message, "case": v.failure.case,
            });
            let _ = std::fs::write(&path, serde_json::to_string_pretty(&doc).unwrap());
            println!("FAILURE property={} signature={} : {}", self.id, v.failure.signature, v.failure.message);
            println!("VIOLATION property={} replay={}", self.id, path.display());
            code = 1;
        }
        let distinct_nt = self.stats.nontrivial.len() as u64;
        if code == 0 && !self.inconclusive.is_empty() {
            for w in &self.inconclusive {
                println!("INCONCLUSIVE property={} reason={}", self.id, w);
            }
            code = 2;
        }
        if code == 0 && distinct_nt < floor_nontrivial {
            println!(
                "INCONCLUSIVE property={} reason=vacuity guard: {} distinct non-trivial cases < floor {}",
                self.id, distinct_nt, floor_nontrivial
            );
            code = 2;
        }
        let classes: BTreeMap<String, u64> = self.stats.classes.iter().map(|(k, v)| (k.to_string(), *v)).collect();
        if self.stats.samples.is_empty() {
            self.stats.samples.push(json!("no sample captured"));
        }
        let mut coverage = json!({
            "evaluations": self.stats.evaluations,
            "distinct_nontrivial": distinct_nt,
            "distinct_cases": self.stats.distinct.len(),
            "rule": rule,
            "samples": self.stats.samples,
            "classes": classes,
            "phases": self.phases,
            "exhaustive": self.any_phase && self.all_exhaustive,
            "exhaustive_subspaces": self.exhaustive_subspaces,
            "ambiguous_excluded": self.stats.ambiguous,
            "known_finding_excluded": self.stats.known_excluded,
            "threads": self.threads,
        });
        for (k, v) in &self.extra {
            coverage[k] = v.clone();
        }
        let ev = json!({
            "property_id": self.id,
            "tier": self.tier,
            "seed": self.seed as i64,
            "level": self.level,
            "coverage": coverage,
            "assumptions": assumptions,
            "wall_s": wall,
            "violations": self.violations.len(),
            "exit_code": code,
        });
        let evdir = root().join("evidence");
        let _ = std::fs::create_dir_all(&evdir);
        std::fs::write(evdir.join(format!("{}.json", self.id)), serde_json::to_string_pretty(&ev).unwrap())
            .expect("cannot write evidence");
        println!(
            "{} {} seed={} evaluations={} distinct_nontrivial={} ambiguous={} violations={} wall={:.1}s exit={}",
            self.id, self.tier, self.seed, self.stats.evaluations, distinct_nt, self.stats.ambiguous,
            self.violations.len(), wall, code
        );
        code
    }
}

//! Reference model of one update check (DESIGN.md appendix A), written from the property statements
//! and the protocol documentation, and the segmentation of an op log into lives and checks.
//!
//! `walk_check` is a pure function from what the environment answered (in the order the flow
//! consumes the answers) to the allowed observable behaviour, expressed as per-projection lists.
//! Monitors compare one projection each.

use crate::respgen::XResp;
use crate::sim::types::*;
use std::time::Duration;

// ------------------------------------------------------------------------------------------
// X-Retry-After, from the statement: plain decimal u64 N -> min(N, 86400) s, otherwise absent

#[derive(Clone, Debug, PartialEq)]
pub enum PollReading {
    /// exactly this value
    Is(Option<Duration>),
    /// the statement leaves it open (leading '+', several headers that disagree): any of these
    OneOf(Vec<Option<Duration>>),
}

pub fn read_retry_after_value(v: &[u8]) -> (Option<Duration>, bool) {
    // returns (value, ambiguous)
    if v.is_empty() {
        return (None, false);
    }
    if v.iter().all(|b| b.is_ascii_digit()) {
        // digits only: fits u64?
        let s = std::str::from_utf8(v).unwrap().trim_start_matches('0');
        if s.len() > 20 {
            return (None, false);
        }
        let n: u128 = if s.is_empty() { 0 } else { s.parse().unwrap() };
        if n > u64::MAX as u128 {
            return (None, false);
        }
        return (Some(Duration::from_secs((n as u64).min(86400))), false);
    }
    if v[0] == b'+' && v.len() > 1 && v[1..].iter().all(|b| b.is_ascii_digit()) {
        let (val, _) = read_retry_after_value(&v[1..]);
        // "+5": plain decimal or not? both readings accepted
        return (val, true);
    }
    (None, false)
}

pub fn read_retry_after(values: &[Vec<u8>]) -> PollReading {
    match values.len() {
        0 => PollReading::Is(None),
        1 => {
            let (v, amb) = read_retry_after_value(&values[0]);
            if amb {
                PollReading::OneOf(vec![v, None])
            } else {
                PollReading::Is(v)
            }
        }
        _ => {
            let mut opts = vec![];
            for x in values {
                let (v, amb) = read_retry_after_value(x);
                opts.push(v);
                if amb {
                    opts.push(None);
                }
            }
            opts.dedup();
            if opts.len() == 1 {
                PollReading::Is(opts[0])
            } else {
                PollReading::OneOf(opts)
            }
        }
    }
}

// ------------------------------------------------------------------------------------------
// expectation of one check

#[derive(Clone, Debug, PartialEq)]
pub struct EventExpect {
    pub app_id: String,
    pub event_type: i64,
    pub event_result: i64,
    pub errorcode: Option<i64>,
    pub previous_version: String,
    pub next_version: Option<String>,
}

#[derive(Clone, Debug, PartialEq)]
pub enum ReqExpect {
    /// update check + ping for every app of the set, with the policy's flags
    UpdateCheck { attempt: u32 },
    /// one event report; may be empty (no known app concerned), in which case sending it is optional
    Report { name: &'static str, events: Vec<EventExpect>, per_app: bool, delivered: Option<bool> },
}

#[derive(Clone, Debug, PartialEq)]
pub enum ResultExpect {
    Err(String),
    /// per response app: (id, cohort, days, allowed actions)
    Ok(Vec<(String, [Option<String>; 3], Option<u32>, Vec<ActionView>)>),
}

#[derive(Clone, Debug, Default, PartialEq)]
pub struct Expect {
    pub complete: bool,
    pub states: Vec<StateView>,
    pub requests: Vec<ReqExpect>,
    /// k of each backoff wait (after the k-th failed attempt)
    pub backoffs: Vec<u32>,
    pub attempts: u32,
    pub attempt_success: Vec<bool>,
    pub got_body: bool,
    pub server_response: Option<Vec<String>>,
    pub plan_attempted: bool,
    pub plan_created: Option<String>,
    pub can_start: Option<u8>,
    pub install_attempted: bool,
    pub install_results: Vec<u8>,
    pub installer_errors: usize,
    pub result: Option<ResultExpect>,
    /// Some(b): a no-failure install happened and the policy said b
    pub reboot_pending: Option<bool>,
    /// poll interval after each authenticated response, in order; the last entry is the final value
    pub poll_trace: Vec<PollReading>,
    pub poll_ambiguous: bool,
    /// failed check (counts +1) / successful (reset)
    pub failed: Option<bool>,
    pub last_contact_updated: Option<bool>,
    pub failure_reason: Option<&'static str>,
    /// response doc accepted (for cohort updates)
    pub doc: Option<XResp>,
    pub lost: Vec<(String, usize)>,
    pub consumed_http: usize,
    /// expected reports for which the log holds no answer (never sent, or the log was cut short)
    pub reports_without_answer: usize,
    /// environment questions the responses required but the library never asked (the log has a result, yet no such
    /// call): the flow diverged from the documented path
    pub missing: Vec<&'static str>,
    /// the library stopped retrying although another attempt was allowed (permitted: retries are optional)
    pub gave_up_early: bool,
    pub forged_exchange: bool,
    /// the single attempt failed while the request was being constructed: no request on the wire, no retry
    pub construction_failure: bool,
}

pub struct CheckInputs<'a> {
    pub params: ParamsView,
    pub apps: &'a [AppView],
    pub poll_at_start: Option<Duration>,
    pub http: Vec<&'a HttpAnswer>,
    pub plans: Vec<&'a Result<String, String>>,
    pub can_start: Vec<u8>,
    pub installs: Vec<&'a Vec<u8>>,
    pub reboot_needed: Vec<bool>,
    /// the request could not be constructed (junk service URL): the class the check ended with, no exchange at all
    pub construction_failure: Option<String>,
}

fn four(v: &str) -> String {
    v.to_string()
}

/// Is this response an answer from the server that the client may use?
fn usable(a: &HttpAnswer) -> Option<(u16, &Vec<Vec<u8>>, &BodyView)> {
    match a {
        HttpAnswer::Response { status, retry_after, authentic: true, body, .. } => Some((*status, retry_after, body)),
        _ => None,
    }
}

pub fn walk_check(inp: &CheckInputs) -> Expect {
    let mut e = Expect::default();
    let mut http = inp.http.iter();
    let mut poll: PollReading = PollReading::Is(inp.poll_at_start);
    let poll_in_force = |p: &PollReading| match p {
        PollReading::Is(v) => Some(v.is_some()),
        PollReading::OneOf(vs) => {
            if vs.iter().all(|v| v.is_some()) {
                Some(true)
            } else if vs.iter().all(|v| v.is_none()) {
                Some(false)
            } else {
                None
            }
        }
    };
    e.states.push(StateView::Checking { on_demand: inp.params.on_demand });

    macro_rules! next_http {
        () => {
            match http.next() {
                Some(a) => {
                    e.consumed_http += 1;
                    *a
                }
                None => return e, // log ended (crash / stop): incomplete
            }
        };
    }
    // one event report: consumes one HTTP answer
    macro_rules! report {
        ($name:expr, $events:expr, $per_app:expr) => {'rep: {
            macro_rules! continue_after_missing {
                () => {
                    break 'rep
                };
            }
            let events: Vec<EventExpect> = $events;
            // a report the library never sent leaves no answer in the log: the walk goes on (the monitors see the
            // expected report without a matching request); a log cut short mid-check is told apart by the caller
            // (no result was delivered)
            let Some(a) = http.next().copied() else {
                e.reports_without_answer += 1;
                e.requests.push(ReqExpect::Report { name: $name, events, per_app: $per_app, delivered: None });
                continue_after_missing!();
            };
            e.consumed_http += 1;
            let delivered = match a {
                HttpAnswer::Response { authentic: true, status, retry_after, .. } => {
                    poll = read_retry_after(retry_after);
                    e.poll_trace.push(poll.clone());
                    (200..300).contains(status)
                }
                HttpAnswer::Response { authentic: false, .. } => {
                    e.forged_exchange = true;
                    false
                }
                _ => false,
            };
            if !delivered {
                e.lost.push(($name.to_string(), events.len()));
            }
            e.requests.push(ReqExpect::Report { name: $name, events, per_app: $per_app, delivered: Some(delivered) });
        }};
    }

    // ---- attempt loop
    let mut k: u32 = 1;
    let body: &BodyView;
    let fail = |e: &mut Expect, class: String, reason: &'static str| {
        e.states.push(StateView::ErrorChecking);
        e.result = Some(ResultExpect::Err(class));
        e.failed = Some(true);
        e.last_contact_updated = Some(false);
        e.failure_reason = Some(reason);
    };
    let mut last_fail: Option<(String, &'static str)> = None;
    loop {
        let a = match http.next() {
            Some(a) => {
                e.consumed_http += 1;
                *a
            }
            None => {
                // no further attempt in the log
                if k == 1 {
                    if let Some(class) = &inp.construction_failure {
                        // the request could not even be built: a failed check, nothing heard from the server
                        fail(&mut e, class.clone(), "internal");
                        // one attempt was made (and is accounted for in the metrics); nothing went on the wire
                        e.attempts = 1;
                        e.attempt_success.push(false);
                        e.construction_failure = true;
                        e.complete = true;
                    }
                    return e; // otherwise not even one attempt: the log was cut short
                }
                // the library gave up after k-1 attempts although a retry was allowed; retries are optional, so
                // the check simply ends with the last failure
                e.gave_up_early = true;
                e.backoffs.pop();
                let (class, reason) = last_fail.clone().unwrap();
                fail(&mut e, class, reason);
                e.complete = true;
                return e;
            }
        };
        e.requests.push(ReqExpect::UpdateCheck { attempt: k });
        e.attempts = k;
        let retry_ok = |poll: &PollReading| k < 3 && poll_in_force(poll) == Some(false);
        let retry_unknown = |poll: &PollReading| k < 3 && poll_in_force(poll).is_none();
        match a {
            HttpAnswer::Transport | HttpAnswer::Timeout => {
                e.attempt_success.push(false);
                if retry_unknown(&poll) {
                    e.poll_ambiguous = true;
                    return e;
                }
                if retry_ok(&poll) {
                    e.backoffs.push(k);
                    k += 1;
                    last_fail = Some(("request:transport".into(), "network"));
                    continue;
                }
                fail(&mut e, "request:transport".into(), "network");
                e.complete = true;
                return e;
            }
            HttpAnswer::UserError => {
                e.attempt_success.push(false);
                fail(&mut e, "request:transport".into(), "network");
                e.complete = true;
                return e;
            }
            HttpAnswer::Response { authentic: false, .. } => {
                e.attempt_success.push(false);
                e.forged_exchange = true;
                fail(&mut e, "request:cup-validation".into(), "internal");
                e.complete = true;
                return e;
            }
            HttpAnswer::Response { .. } => {
                let (status, retry_after, b) = usable(a).unwrap();
                poll = read_retry_after(retry_after);
                e.poll_trace.push(poll.clone());
                if !(200..300).contains(&status) {
                    e.attempt_success.push(false);
                    if retry_unknown(&poll) {
                        e.poll_ambiguous = true;
                        return e;
                    }
                    if retry_ok(&poll) {
                        e.backoffs.push(k);
                        k += 1;
                        last_fail = Some((format!("request:http-status:{status}"), "network"));
                        continue;
                    }
                    fail(&mut e, format!("request:http-status:{status}"), "network");
                    e.complete = true;
                    return e;
                }
                e.attempt_success.push(true);
                body = b;
                break;
            }
        }
    }
    e.got_body = true;
    let known = |id: &str| inp.apps.iter().find(|a| a.id == id);

    let doc = match body {
        BodyView::Unparseable => {
            e.states.push(StateView::ErrorChecking);
            let evs = inp
                .apps
                .iter()
                .map(|a| EventExpect { app_id: a.id.clone(), event_type: 3, event_result: 0, errorcode: Some(0), previous_version: four(&a.version), next_version: None })
                .collect();
            report!("parse error", evs, false);
            e.result = Some(ResultExpect::Err("parse".into()));
            e.failed = Some(true);
            e.last_contact_updated = Some(true);
            e.failure_reason = Some("omaha");
            e.complete = true;
            return e;
        }
        // arbitrary bytes: the model cannot follow (only generated where no model is consulted)
        BodyView::Unknown => return e,
        BodyView::Doc(x) => x,
    };
    e.doc = Some(doc.clone());
    e.server_response = Some(doc.apps.iter().map(|a| a.id.clone()).collect());
    let offered: Vec<&crate::respgen::XApp> = doc.apps.iter().filter(|a| matches!(&a.uc, Some(u) if u.status == "ok")).collect();
    let days = doc.daystart.and_then(|(d, _)| d);
    let uniform = |acts: Vec<ActionView>, offered_act: ActionView| -> ResultExpect {
        ResultExpect::Ok(
            doc.apps
                .iter()
                .map(|a| {
                    let is_offered = matches!(&a.uc, Some(u) if u.status == "ok");
                    (a.id.clone(), a.cohort.clone(), days, if is_offered { vec![offered_act] } else { acts.clone() })
                })
                .collect(),
        )
    };
    let success = |e: &mut Expect| {
        e.failed = Some(false);
        e.last_contact_updated = Some(true);
    };
    if offered.is_empty() {
        e.states.push(StateView::NoUpdate);
        e.result = Some(uniform(vec![ActionView::NoUpdate], ActionView::NoUpdate));
        success(&mut e);
        e.complete = true;
        return e;
    }
    // events for the known apps that were offered an update, in app-set order
    let offered_events = |ty: i64, res: i64, code: Option<i64>| -> Vec<EventExpect> {
        inp.apps
            .iter()
            .filter_map(|a| {
                // an app id may be offered at most once in generated documents
                let o = offered.iter().find(|o| o.id == a.id)?;
                Some(EventExpect {
                    app_id: a.id.clone(),
                    event_type: ty,
                    event_result: res,
                    errorcode: code,
                    previous_version: four(&a.version),
                    next_version: o.uc.as_ref().and_then(|u| u.manifest.as_ref()).map(|m| m.version.clone()),
                })
            })
            .collect()
    };
    e.plan_attempted = true;
    let Some(plan) = inp.plans.first() else {
        e.missing.push("try_create_install_plan (an update was offered)");
        return e;
    };
    match plan {
        Err(_) => {
            e.states.push(StateView::Installing);
            e.states.push(StateView::InstallationError);
            report!("construct install plan error", offered_events(3, 0, Some(1)), false);
            e.result = Some(ResultExpect::Err("install-plan".into()));
            e.failed = Some(true);
            e.last_contact_updated = Some(true);
            e.failure_reason = Some("omaha");
            e.complete = true;
            return e;
        }
        Ok(id) => e.plan_created = Some(id.clone()),
    }
    let Some(cs) = inp.can_start.first().copied() else {
        e.missing.push("update_can_start (an install plan was created)");
        return e;
    };
    e.can_start = Some(cs);
    match cs {
        1 => {
            report!("deferred by policy", offered_events(3, 9, None), false);
            e.states.push(StateView::Deferred);
            e.result = Some(uniform(vec![ActionView::NoUpdate, ActionView::DeferredByPolicy], ActionView::DeferredByPolicy));
            success(&mut e);
            e.complete = true;
            return e;
        }
        2 => {
            report!("denied by policy", offered_events(3, 0, Some(3)), false);
            e.result = Some(uniform(vec![ActionView::NoUpdate, ActionView::DeniedByPolicy], ActionView::DeniedByPolicy));
            success(&mut e);
            e.complete = true;
            return e;
        }
        _ => {}
    }
    e.states.push(StateView::Installing);
    report!("download started", offered_events(13, 1, None), false);
    e.install_attempted = true;
    let Some(results) = inp.installs.first() else {
        e.missing.push("perform_install (the policy approved the plan)");
        return e;
    };
    e.install_results = (*results).clone();
    // per-app result events, for known offered apps, in response (offered) order
    let mut per_app = vec![];
    let mut installed_ids = vec![];
    for (o, r) in offered.iter().zip(results.iter()) {
        if let Some(a) = known(&o.id) {
            let (ty, res, code) = match r {
                0 => (14, 1, None),
                1 => (3, 9, None),
                _ => (3, 0, Some(2)),
            };
            if *r == 0 {
                installed_ids.push(a.id.clone());
            }
            per_app.push(EventExpect {
                app_id: a.id.clone(),
                event_type: ty,
                event_result: res,
                errorcode: code,
                previous_version: four(&a.version),
                next_version: o.uc.as_ref().and_then(|u| u.manifest.as_ref()).map(|m| m.version.clone()),
            });
        }
    }
    report!("per-app install result", per_app, true);
    if !installed_ids.is_empty() {
        let evs: Vec<EventExpect> = offered_events(3, 1, None).into_iter().filter(|ev| installed_ids.contains(&ev.app_id)).collect();
        report!("update complete", evs, false);
    }
    // result: response apps in order; offered apps carry the action they received
    let mut it = results.iter();
    e.result = Some(ResultExpect::Ok(
        doc.apps
            .iter()
            .map(|a| {
                let is_offered = matches!(&a.uc, Some(u) if u.status == "ok");
                let act = if is_offered {
                    match it.next() {
                        Some(0) => ActionView::Updated,
                        Some(1) => ActionView::DeferredByPolicy,
                        _ => ActionView::InstallError,
                    }
                } else {
                    ActionView::NoUpdate
                };
                (a.id.clone(), a.cohort.clone(), days, vec![act])
            })
            .collect(),
    ));
    let failed_apps = results.iter().filter(|r| **r >= 2).count();
    success(&mut e);
    if failed_apps > 0 {
        e.installer_errors = failed_apps;
        e.states.push(StateView::InstallationError);
        e.complete = true;
        return e;
    }
    let Some(rn) = inp.reboot_needed.first().copied() else {
        e.missing.push("reboot_needed (an install finished without a failed app)");
        return e;
    };
    e.reboot_pending = Some(rn);
    e.complete = true;
    e
}

// ------------------------------------------------------------------------------------------
// segmentation of the op log

#[derive(Clone, Debug)]
pub struct CheckSeg {
    /// index of the positive CheckAllowed op (continuous mode); None in one-shot mode
    pub allowed: Option<usize>,
    /// ops[start..end] belong to the check: from just after the decision up to (excluding) the op that
    /// follows the end of the check (Idle / WaitingForReboot / StreamEnd / Crash / MachineDropped / Build)
    pub start: usize,
    pub end: usize,
    /// index of Took(Result) if the check got that far
    pub result_at: Option<usize>,
    pub life: usize,
    pub oneshot: bool,
}

#[derive(Clone, Debug)]
pub struct LifeSeg {
    pub life: usize,
    pub oneshot: bool,
    pub start: usize,
    pub end: usize,
}

pub fn lives(log: &[Op]) -> Vec<LifeSeg> {
    let mut out: Vec<LifeSeg> = vec![];
    for (i, op) in log.iter().enumerate() {
        if let Op::Build { life, oneshot } = op {
            if let Some(l) = out.last_mut() {
                l.end = i;
            }
            out.push(LifeSeg { life: *life, oneshot: *oneshot, start: i, end: log.len() });
        }
    }
    out
}

pub fn checks(log: &[Op]) -> Vec<CheckSeg> {
    let mut out = vec![];
    for l in lives(log) {
        let ops = &log[l.start..l.end];
        let mut i = 0;
        while i < ops.len() {
            let begins = match &ops[i] {
                Op::CheckAllowed { answer, .. } if answer.positive() => Some(Some(l.start + i)),
                Op::Build { oneshot: true, .. } => Some(None),
                _ => None,
            };
            if let Some(allowed) = begins {
                // one-shot: the check starts at the first Took(Checking); skip the loading ops
                let mut start = i + 1;
                if allowed.is_none() {
                    while start < ops.len() && !matches!(ops[start], Op::Took(EventView::State(StateView::Checking { .. }))) {
                        start += 1;
                    }
                    if start >= ops.len() {
                        break;
                    }
                }
                let mut j = start;
                let mut result_at = None;
                while j < ops.len() {
                    match &ops[j] {
                        Op::Took(EventView::Result(_)) => result_at = Some(l.start + j),
                        Op::Took(EventView::State(StateView::Idle)) | Op::Took(EventView::State(StateView::WaitingForReboot)) | Op::StreamEnd | Op::MachineDropped | Op::Crash { .. } => break,
                        _ => {}
                    }
                    j += 1;
                }
                out.push(CheckSeg { allowed, start: l.start + start, end: l.start + j, result_at, life: l.life, oneshot: l.oneshot });
                i = j;
            } else {
                i += 1;
            }
        }
    }
    out
}

/// Answers recorded inside a check segment, in order.
pub fn inputs_of<'a>(log: &'a [Op], seg: &CheckSeg, apps: &'a [AppView], params: ParamsView, poll_at_start: Option<Duration>) -> CheckInputs<'a> {
    let mut inp = CheckInputs { params, apps, poll_at_start, http: vec![], plans: vec![], can_start: vec![], installs: vec![], reboot_needed: vec![], construction_failure: None };
    for op in &log[seg.start..seg.end] {
        match op {
            Op::HttpDone { answer, .. } => inp.http.push(answer),
            Op::CreatePlan { answer, .. } => inp.plans.push(answer),
            Op::CanStart { answer, .. } => inp.can_start.push(*answer),
            Op::InstallDone { results } => inp.installs.push(results),
            Op::RebootNeeded { answer, .. } => inp.reboot_needed.push(*answer),
            _ => {}
        }
    }
    inp
}

pub fn params_of(c: &CheckDecisionSpec) -> ParamsView {
    ParamsView { on_demand: c.source_on_demand.unwrap_or(false), proxies: c.proxies, disable_updates: c.disable_updates, same_version: c.same_version }
}

//! C04 — Update-check flow: announced states and result match what happened.

use super::flow::*;
use crate::engine::*;
use crate::model::*;
use crate::sim::{gen::*, types::*};
use crate::tape::Tape;
use serde_json::json;

pub const RULE: &str = "a case = 1-3 checks in continuous mode (or one one-shot check) over a generated script: per-attempt \
outcomes (transport / timeout / caller error / status / forged / unparseable / success), response documents naming any \
subset of 1-3 apps in any order with unknown ids and ok/noupdate/restricted/error statuses, check decision Ok / \
OkUpdateDeferred, plan creation ok/error, update_can_start in 3, per-app installer results in {Installed, Deferred, \
Failed}^k, reboot needed/allowed. Oracle: the reference model's projection on StateChange / OmahaServerResponse / \
InstallerError / UpdateCheckResult and the final ScheduleChange + ProtocolStateChange; iff in both directions because the \
whole state sequence is compared. non-trivial = >= 2 response apps with a strict non-empty subset offered, or a failure / \
deferral / denial / install-error path; distinct by (script, plan) hash.";

pub fn profile() -> Profile {
    Profile { max_apps: 3, offer_w: 5, junk_url: (1, 12), ..Default::default() }
}

pub fn gen_lives(t: &mut Tape) -> Vec<LifePlan> {
    if t.chance(1, 6) {
        vec![LifePlan::new(true, 1, None)]
    } else {
        vec![LifePlan::new(false, 1 + t.choose(3), None)]
    }
}

pub fn check_history(h: &Hist) -> Result<(bool, Vec<&'static str>), Failure> {
    let evals = evaluate(h);
    let mut nontrivial = false;
    let mut classes = vec![];
    for ev in &evals {
        let e = &ev.expect;
        let seg = &ev.seg;
        let around = Some((seg.start.saturating_sub(2), (seg.end + 4).min(h.log.len())));
        // the check ran to its result, yet the library never asked the environment something the responses required
        if seg.result_at.is_some() && !e.missing.is_empty() && !e.poll_ambiguous {
            return Err(failure(
                "path-diverged",
                format!("the check delivered a result without ever calling {}: announced states {:?}", e.missing.join(", "), seg_states(h, seg)),
                h,
                around,
            ));
        }
        if e.poll_ambiguous || !e.complete {
            classes.push("incomplete_or_ambiguous_check");
            continue;
        }
        let took: Vec<(usize, &EventView)> = h.log[seg.start..seg.end].iter().enumerate().filter_map(|(i, o)| if let Op::Took(v) = o { Some((seg.start + i, v)) } else { None }).collect();
        // first event: CheckingForUpdates with the source the policy returned
        match took.first() {
            Some((_, EventView::State(StateView::Checking { on_demand }))) if *on_demand == ev.params.on_demand => {}
            other => return Err(failure("first-event-not-checking", format!("a check must first announce CheckingForUpdates({}), got {other:?}", ev.params.on_demand), h, around)),
        }
        // states in between name the path actually taken
        let states = seg_states(h, seg);
        if states != e.states {
            return Err(failure(
                "states-mismatch",
                format!("announced states {states:?}, the path actually taken implies {:?}", e.states),
                h,
                around,
            ));
        }
        // exactly one result, last, immediately preceded by the final schedule and protocol state
        let results: Vec<usize> = took.iter().enumerate().filter(|(_, (_, v))| matches!(v, EventView::Result(_))).map(|(k, _)| k).collect();
        if results.len() != 1 || results[0] != took.len() - 1 {
            return Err(failure("result-not-once-last", format!("a check announces exactly one result, last; result positions {results:?} of {} events", took.len()), h, around));
        }
        let r = results[0];
        let (sched, proto) = match (took.get(r.wrapping_sub(2)), took.get(r.wrapping_sub(1))) {
            (Some((_, EventView::Schedule(s))), Some((_, EventView::Protocol(p)))) if r >= 2 => (*s, *p),
            other => return Err(failure("result-not-preceded-by-schedule-and-protocol", format!("the result must be preceded by the final schedule and protocol state, got {other:?}"), h, around)),
        };
        // ... whose values are final: equal to what the next compute_next_update_time receives (no ping in between)
        let after = &h.log[seg.end..];
        let mut saw_http = false;
        for op in after {
            match op {
                Op::Http { .. } => saw_http = true,
                Op::Build { .. } | Op::MachineDropped | Op::Crash { .. } => break,
                Op::NextTime { sched: s2, state: p2, .. } => {
                    if !saw_http {
                        let mut s_cmp = *s2;
                        s_cmp.next_update = sched.next_update;
                        if s_cmp != sched || *p2 != proto {
                            return Err(failure(
                                "final-schedule-or-protocol-not-final",
                                format!("the schedule / protocol state announced before the result ({sched:?} / {proto:?}) differ from what the policy is shown next ({s2:?} / {p2:?})"),
                                h,
                                around,
                            ));
                        }
                    }
                    break;
                }
                _ => {}
            }
        }
        // server response announced iff authenticated and parsed
        let announced: Vec<&Vec<String>> = took.iter().filter_map(|(_, v)| if let EventView::ServerResponse(ids) = v { Some(ids) } else { None }).collect();
        match (&e.server_response, announced.as_slice()) {
            (None, []) => {}
            (Some(w), [g]) if *g == w => {}
            _ => return Err(failure("server-response-announcement", format!("OmahaServerResponse announced {announced:?}, expected {:?}", e.server_response), h, around)),
        }
        // one installer-error event per failed app, before InstallationError
        let inst_errs: Vec<usize> = took.iter().filter(|(_, v)| matches!(v, EventView::InstallerError(_))).map(|(i, _)| *i).collect();
        if inst_errs.len() != e.installer_errors {
            return Err(failure("installer-error-count", format!("{} InstallerError events for {} failed apps", inst_errs.len(), e.installer_errors), h, around));
        }
        if let Some(last_err) = inst_errs.last() {
            let ie = took.iter().find(|(_, v)| matches!(v, EventView::State(StateView::InstallationError))).map(|(i, _)| *i);
            if ie.map(|i| i < *last_err).unwrap_or(true) {
                return Err(failure("installer-error-after-state", "InstallerError events must precede InstallationError".to_string(), h, around));
            }
        }
        // result
        let got = seg_result(h, seg).unwrap();
        if let Err(why) = result_matches(got, e.result.as_ref().unwrap()) {
            return Err(failure("result-mismatch", why, h, around));
        }
        // continuous: followed by Idle, with WaitingForReboot in between exactly when a reboot is pending
        if !seg.oneshot {
            let pending = e.reboot_pending == Some(true);
            match h.log.get(seg.end) {
                Some(Op::Took(EventView::State(StateView::WaitingForReboot))) if pending => {
                    // the next state announced in this life must be Idle
                    let next_state = h.log[seg.end + 1..].iter().find_map(|o| match o {
                        Op::Took(EventView::State(s)) => Some(Some(*s)),
                        Op::MachineDropped | Op::Crash { .. } | Op::Build { .. } => Some(None),
                        _ => None,
                    });
                    if !matches!(next_state, None | Some(None) | Some(Some(StateView::Idle))) {
                        return Err(failure("reboot-wait-not-followed-by-idle", format!("after WaitingForReboot the next state was {next_state:?}"), h, around));
                    }
                }
                Some(Op::Took(EventView::State(StateView::Idle))) if !pending => {}
                Some(Op::MachineDropped) | Some(Op::Crash { .. }) | None => {}
                other => return Err(failure("idle-or-reboot-wait", format!("after the check (reboot pending: {pending}) the machine announced {other:?}"), h, around)),
            }
        } else {
            // one-shot: nothing but the end of the stream follows
            match h.log.get(seg.end) {
                Some(Op::StreamEnd) | Some(Op::MachineDropped) | None => {}
                other => return Err(failure("oneshot-not-ended", format!("a one-shot check must end the stream, got {other:?}"), h, around)),
            }
        }
        // classification
        if let Some(doc) = &e.doc {
            let offered = doc.apps.iter().filter(|a| matches!(&a.uc, Some(u) if u.status == "ok")).count();
            if doc.apps.len() >= 2 && offered >= 1 && offered < doc.apps.len() {
                nontrivial = true;
                classes.push("strict_subset_offered");
            }
            if doc.apps.iter().any(|a| a.id.starts_with("unknown-")) {
                classes.push("unknown_app_in_response");
            }
        }
        match e.result {
            Some(ResultExpect::Err(_)) => {
                nontrivial = true;
                classes.push("error_path");
            }
            _ => {}
        }
        match e.can_start {
            Some(1) => {
                nontrivial = true;
                classes.push("deferred");
            }
            Some(2) => {
                nontrivial = true;
                classes.push("denied");
            }
            _ => {}
        }
        if e.installer_errors > 0 {
            nontrivial = true;
            classes.push("install_error");
        }
        if e.reboot_pending == Some(true) {
            classes.push("reboot_pending");
        }
        if e.install_attempted {
            classes.push("install_attempted");
        }
    }
    if evals.len() >= 2 {
        classes.push("multi_check");
    }
    classes.sort();
    classes.dedup();
    Ok((nontrivial, classes))
}

pub fn case(t: &mut Tape, ctx: &CaseCtx) -> CaseResult {
    let lives = gen_lives(t);
    let script = gen_script(t, &profile());
    let h = run_history(script, &lives);
    let (nontrivial, classes) = check_history(&h)?;
    Ok(CaseReport {
        key: hash_of(&format!("{:?}{:?}", h.script, lives)),
        nontrivial,
        classes,
        sample: ctx.want_sample.then(|| json!({"lives": format!("{lives:?}"), "script": script_json(&h.script), "events": h.log.iter().filter_map(|o| if let Op::Took(v) = o { Some(format!("{v:?}").chars().take(160).collect::<String>()) } else { None }).take(40).collect::<Vec<_>>()})),
        ambiguous: false,
    })
}

pub fn run(mut run: Run) -> i32 {
    run.replay_committed(&case);
    run.random("histories", &[], run.n(200_000, 2_000_000), 600, &case);
    run.finish(
        RULE,
        300,
        &[
            "the simulated environment honours the trait contracts (installer returns one result per offered app in response order)",
            "for apps not offered an update when policy deferred / denied, both NoUpdate and the policy action are accepted",
            "response documents never name the same app twice",
            "library-internal randomness (ids, backoff draws, select! ties) is not seeded; the oracle does not depend on it",
        ],
    )
}

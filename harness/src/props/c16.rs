//! C16 — Response parser is total and faithful.

use crate::engine::*;
use crate::jsongen::{self, J};
use crate::respgen::*;
use crate::tape::Tape;
use omaha_client::protocol::response::{parse_json_response, Response};
use serde_json::json;

pub const RULE: &str = "mode 0 (totality): random bytes, truncations / bit flips / splices of valid documents, nesting up \
to 100000 levels (parsed on a 2 MiB-stack thread), each with and without the anti-XSSI prefix: the parser returns Ok or Err \
and parse(prefix+d) == parse(d). mode 1 (fidelity): documents from an independent grammar generator (apps in order, known \
and unknown statuses, cohort fields absent/empty/set, daystart, ping, events, updatecheck with info/urls/manifest/actions/\
packages with size over the u64 range, extension attributes at app/updatecheck/action/package level, unknown attributes \
elsewhere; key order shuffled, whitespace and string escapes varied) must parse to exactly the generated values, incl. \
get_all_full_urls. mode 2 (rejection): one protocol-mandatory field deleted or one field re-typed => Err. non-trivial = \
document with >= 2 apps or a manifest with >= 1 package, or a mutation actually applied; distinct by document hash.";

const PREFIX: &[u8] = b")]}'\n";

fn parse_on_small_stack(bytes: Vec<u8>) -> Result<Result<Option<Response>, ()>, String> {
    // Rust's default stack for spawned threads is 2 MiB: "no stack overflow" must hold there.
    let h = std::thread::Builder::new().stack_size(2 << 20).spawn(move || catch(|| parse_json_response(&bytes).ok())).map_err(|e| e.to_string())?;
    match h.join() {
        Ok(Ok(v)) => Ok(Ok(v)),
        Ok(Err((loc, msg))) => Err(format!("panic at {loc}: {msg}")),
        Err(_) => Err("thread died".into()),
    }
    .map(|r: Result<Option<Response>, ()>| r)
}

fn summary(r: &serde_json::Result<Response>) -> Option<String> {
    r.as_ref().ok().map(|v| format!("{v:?}"))
}

fn valid_doc(t: &mut Tape) -> (XResp, Vec<u8>) {
    let x = gen_xresp(t);
    let seed = t.u64_full();
    let level = t.choose(2) as u8;
    let j = render(&x, seed);
    (x, jsongen::to_bytes(&j, seed, level))
}

fn check_totality(t: &mut Tape, ctx: &CaseCtx) -> CaseResult {
    let kind = t.choose(8);
    let mut deep = false;
    let mut must_reject = false;
    let bytes: Vec<u8> = match kind {
        0 => t.bytes(64),
        1 => {
            // truncation of a valid document
            let (_, d) = valid_doc(t);
            let n = t.choose(d.len() + 1);
            d[..n].to_vec()
        }
        2 => {
            // bit flips
            let (_, mut d) = valid_doc(t);
            for _ in 0..1 + t.choose(3) {
                if !d.is_empty() {
                    let i = t.choose(d.len());
                    d[i] ^= 1 << t.choose(8);
                }
            }
            d
        }
        3 => {
            // splice two documents
            let (_, a) = valid_doc(t);
            let (_, b) = valid_doc(t);
            let i = t.choose(a.len() + 1);
            let j = t.choose(b.len() + 1);
            [&a[..i], &b[j..]].concat()
        }
        4 => {
            // deep nesting, in various positions
            deep = true;
            let depth = *t.pick(&[100usize, 127, 128, 129, 200, 1000, 10_000, 100_000]);
            let (open, close) = if t.flag() { ("[", "]") } else { ("{\"a\":", "}") };
            let inner = format!("{}0{}", open.repeat(depth), close.repeat(depth));
            match t.choose(4) {
                0 => inner.into_bytes(),
                1 => format!("{{\"response\":{{\"protocol\":\"3.0\",\"app\":[{{\"appid\":\"a\",\"status\":\"ok\",\"ext\":{inner}}}]}}}}").into_bytes(),
                2 => format!("{{\"response\":{inner}}}").into_bytes(),
                _ => open.repeat(depth).into_bytes(), // unterminated
            }
        }
        7 => {
            // a damaged anti-XSSI prefix in front of a valid document: not JSON, must be rejected
            let (_, d) = valid_doc(t);
            let mut p = PREFIX.to_vec();
            match t.choose(5) {
                0 => p[4] = *t.pick(&[b' ', b'\r', b'\t', b'x', b'{', b'"', b'0']),
                1 => {
                    p.pop();
                }
                2 => {
                    let i = t.choose(4);
                    p[i] = *t.pick(&[b'(', b'[', b'{', b'"', b' ']);
                }
                3 => {
                    // the guard repeated: twice, a few times, or a flood of them
                    let k = *t.pick(&[1usize, 1, 2, 4, 1000, 100_000]);
                    for _ in 0..k {
                        p.extend_from_slice(PREFIX);
                    }
                    deep = k >= 1000;
                }
                _ => {
                    p.insert(0, b' ');
                }
            }
            must_reject = true;
            [&p[..], &d[..]].concat()
        }
        5 => {
            // valid JSON of the wrong shape
            let v = gen_extra_value(t, 2);
            jsongen::to_bytes(&v, t.u64_full(), 1)
        }
        _ => {
            // insert an interesting token somewhere in a valid document
            let (_, mut d) = valid_doc(t);
            let i = t.choose(d.len() + 1);
            const TOKS: &[&[u8]] = &[b"\"", b"\\", b"{", b"}", b"[", b"]", b",", b":", b"null", b"\xff", b"\xc3", b"\x00", b"1e999", b"-", b"\\ud800"];
            let tok: &[u8] = TOKS[t.choose(TOKS.len())];
            for (k, b) in tok.iter().enumerate() {
                d.insert(i + k, *b);
            }
            d
        }
    };
    let with_prefix: Vec<u8> = [PREFIX, &bytes[..]].concat();
    let case = json!({"kind": kind, "len": bytes.len(), "head": String::from_utf8_lossy(&bytes[..bytes.len().min(200)])});
    let (a, b) = if deep {
        let a = parse_on_small_stack(bytes.clone()).map_err(|e| Failure::new("parser-panic", e, case.clone()))?;
        let b = parse_on_small_stack(with_prefix).map_err(|e| Failure::new("parser-panic", e, case.clone()))?;
        (a.ok().flatten().map(|v| format!("{v:?}")), b.ok().flatten().map(|v| format!("{v:?}")))
    } else {
        (summary(&parse_json_response(&bytes)), summary(&parse_json_response(&with_prefix)))
    };
    let already_prefixed = bytes.starts_with(PREFIX);
    if already_prefixed {
        must_reject = false;
    }
    if a != b && !already_prefixed {
        return Err(Failure::new("prefix-variance", format!("parse(prefix+d) = {b:?} but parse(d) = {a:?}"), case));
    }
    // the guard is accepted once: what follows it must be the JSON document, and `)` cannot begin one
    let after_one_guard = bytes.strip_prefix(PREFIX).unwrap_or(&bytes[..]);
    if after_one_guard.starts_with(b")]}'") && a.is_some() {
        return Err(Failure::new("repeated-guard-accepted", format!("a document behind a repeated anti-XSSI guard was accepted: {a:?}"), case));
    }
    // a damaged prefix is not the prefix: must not be silently accepted as one
    if must_reject && a.is_some() {
        return Err(Failure::new("damaged-prefix-accepted", format!("a document behind a damaged anti-XSSI prefix was accepted: {a:?}"), case));
    }
    Ok(CaseReport {
        key: hash_of(&bytes),
        nontrivial: kind != 0,
        classes: vec![["random_bytes", "truncated", "bit_flipped", "spliced", "deep_nesting", "wrong_shape", "token_inserted", "damaged_prefix"][kind], if a.is_some() { "parsed_ok" } else { "parsed_err" }],
        sample: ctx.want_sample.then(|| case.clone()),
        ambiguous: false,
    })
}

fn check_fidelity(t: &mut Tape, ctx: &CaseCtx) -> CaseResult {
    let (x, bytes) = valid_doc(t);
    let use_prefix = t.flag();
    let doc: Vec<u8> = if use_prefix { [PREFIX, &bytes[..]].concat() } else { bytes.clone() };
    let case = json!({"document": String::from_utf8_lossy(&doc)});
    let parsed = match parse_json_response(&doc) {
        Ok(p) => p,
        Err(e) => return Err(Failure::new("valid-rejected", format!("well-formed document rejected: {e}"), case)),
    };
    if let Err(why) = compare(&x, &parsed) {
        let field = why.split(':').next().unwrap_or("").to_string();
        // normalise indices out of the signature
        let sig: String = field.chars().filter(|c| !c.is_ascii_digit()).collect();
        return Err(Failure::new(format!("field-mismatch:{sig}"), why, case));
    }
    let pkgs = x.apps.iter().filter_map(|a| a.uc.as_ref()).filter_map(|u| u.manifest.as_ref()).map(|m| m.packages.len()).sum::<usize>();
    let mut classes = vec!["fidelity"];
    if x.apps.len() >= 2 {
        classes.push("multi_app");
    }
    if pkgs >= 1 {
        classes.push("has_package");
    }
    if x.apps.iter().any(|a| a.cohort.iter().any(|c| c.as_deref() == Some(""))) {
        classes.push("empty_cohort_field");
    }
    if x.apps.iter().any(|a| !a.extra.is_empty()) {
        classes.push("app_extension_attrs");
    }
    if use_prefix {
        classes.push("xssi_prefix");
    }
    Ok(CaseReport {
        key: hash_of(&doc),
        nontrivial: x.apps.len() >= 2 || pkgs >= 1,
        classes,
        sample: ctx.want_sample.then(|| case.clone()),
        ambiguous: false,
    })
}

/// Paths to protocol-mandatory fields present in a rendered document.
fn required_paths(x: &XResp) -> Vec<(Vec<String>, &'static str)> {
    let s = |v: &[&str]| v.iter().map(|x| x.to_string()).collect::<Vec<_>>();
    let mut out = vec![(s(&["response"]), "response"), (s(&["response", "protocol"]), "protocol"), (s(&["response", "app"]), "app")];
    for (i, a) in x.apps.iter().enumerate() {
        let i = i.to_string();
        out.push((s(&["response", "app", &i, "appid"]), "appid"));
        out.push((s(&["response", "app", &i, "status"]), "app.status"));
        if let Some(u) = &a.uc {
            out.push((s(&["response", "app", &i, "updatecheck", "status"]), "updatecheck.status"));
            if let Some(urls) = &u.urls {
                for (k, _) in urls.iter().enumerate() {
                    out.push((s(&["response", "app", &i, "updatecheck", "urls", "url", &k.to_string(), "codebase"]), "url.codebase"));
                }
            }
            if let Some(m) = &u.manifest {
                out.push((s(&["response", "app", &i, "updatecheck", "manifest", "version"]), "manifest.version"));
                for (k, _) in m.packages.iter().enumerate() {
                    out.push((s(&["response", "app", &i, "updatecheck", "manifest", "packages", "package", &k.to_string(), "name"]), "package.name"));
                }
            }
        }
        if a.ping.is_some() {
            out.push((s(&["response", "app", &i, "ping", "status"]), "ping.status"));
        }
    }
    out
}

/// Paths to typed fields and a wrongly typed replacement.
fn retype_paths(x: &XResp, t: &mut Tape) -> Vec<(Vec<String>, &'static str, J)> {
    let s = |v: &[&str]| v.iter().map(|x| x.to_string()).collect::<Vec<_>>();
    let mut out = vec![
        (s(&["response"]), "response:array", J::A(vec![])),
        (s(&["response", "protocol"]), "protocol:number", J::U(3)),
        (s(&["response", "app"]), "app:object", J::O(vec![])),
        (s(&["response", "app"]), "app:string", J::s("x")),
    ];
    if x.server.is_some() {
        out.push((s(&["response", "server"]), "server:number", J::U(1)));
    }
    if let Some((d, sec)) = x.daystart {
        out.push((s(&["response", "daystart"]), "daystart:array", J::A(vec![])));
        if d.is_some() {
            out.push((s(&["response", "daystart", "elapsed_days"]), "elapsed_days:string", J::s("5")));
            out.push((s(&["response", "daystart", "elapsed_days"]), "elapsed_days:negative", J::I(-1)));
            out.push((s(&["response", "daystart", "elapsed_days"]), "elapsed_days:2^32", J::U(1 << 32)));
        }
        if sec.is_some() {
            out.push((s(&["response", "daystart", "elapsed_seconds"]), "elapsed_seconds:float", J::Raw("1.5".into())));
        }
    }
    for (i, a) in x.apps.iter().enumerate() {
        let i = i.to_string();
        out.push((s(&["response", "app", &i]), "app[i]:string", J::s("x")));
        out.push((s(&["response", "app", &i, "appid"]), "appid:number", J::U(7)));
        out.push((s(&["response", "app", &i, "status"]), "status:number", J::U(0)));
        out.push((s(&["response", "app", &i, "status"]), "status:array", J::A(vec![J::s("ok")])));
        for (k, name) in ["cohort", "cohorthint", "cohortname"].iter().enumerate() {
            if a.cohort[k].is_some() {
                out.push((s(&["response", "app", &i, name]), "cohort field:number", J::U(1)));
            }
        }
        if a.events.is_some() {
            out.push((s(&["response", "app", &i, "event"]), "event:object", J::O(vec![])));
        }
        if a.ping.is_some() {
            out.push((s(&["response", "app", &i, "ping"]), "ping:string", J::s("ok")));
            out.push((s(&["response", "app", &i, "ping", "status"]), "ping.status:number", J::U(0)));
        }
        if let Some(ev) = &a.events {
            for (k, _) in ev.iter().enumerate() {
                out.push((s(&["response", "app", &i, "event", &k.to_string(), "status"]), "event.status:number", J::U(0)));
                out.push((s(&["response", "app", &i, "event", &k.to_string()]), "event[k]:string", J::s("ok")));
            }
        }
        if let Some(u) = &a.uc {
            out.push((s(&["response", "app", &i, "updatecheck"]), "updatecheck:array", J::A(vec![])));
            out.push((s(&["response", "app", &i, "updatecheck", "status"]), "updatecheck.status:bool", J::Bool(true)));
            if u.info.is_some() {
                out.push((s(&["response", "app", &i, "updatecheck", "info"]), "info:number", J::U(1)));
            }
            if let Some(urls) = &u.urls {
                out.push((s(&["response", "app", &i, "updatecheck", "urls"]), "urls:array", J::A(vec![])));
                out.push((s(&["response", "app", &i, "updatecheck", "urls", "url"]), "url:object", J::O(vec![])));
                for (k, _) in urls.iter().enumerate() {
                    out.push((s(&["response", "app", &i, "updatecheck", "urls", "url", &k.to_string(), "codebase"]), "url.codebase:number", J::U(1)));
                    out.push((s(&["response", "app", &i, "updatecheck", "urls", "url", &k.to_string()]), "url[k]:string", J::s("http://x/")));
                }
            }
            if let Some(m) = &u.manifest {
                out.push((s(&["response", "app", &i, "updatecheck", "manifest"]), "manifest:string", J::s("m")));
                out.push((s(&["response", "app", &i, "updatecheck", "manifest", "version"]), "manifest.version:number", J::U(1)));
                out.push((s(&["response", "app", &i, "updatecheck", "manifest", "packages", "package"]), "package:object", J::O(vec![])));
                out.push((s(&["response", "app", &i, "updatecheck", "manifest", "actions", "action"]), "action:object", J::O(vec![])));
                for (k, a) in m.actions.iter().enumerate() {
                    let k = k.to_string();
                    let base = ["response", "app", &i, "updatecheck", "manifest", "actions", "action", &k];
                    let with = |f: &str| {
                        let mut v = s(&base);
                        v.push(f.to_string());
                        v
                    };
                    out.push((s(&base), "action[k]:string", J::s("install")));
                    if a.event.is_some() {
                        out.push((with("event"), "action.event:number", J::U(1)));
                        out.push((with("event"), "action.event:array", J::A(vec![J::s("install")])));
                    }
                    if a.run.is_some() {
                        out.push((with("run"), "action.run:number", J::U(42)));
                        out.push((with("run"), "action.run:bool", J::Bool(true)));
                        out.push((with("run"), "action.run:object", J::O(vec![])));
                    }
                }
                for (k, p) in m.packages.iter().enumerate() {
                    let k = k.to_string();
                    let base = ["response", "app", &i, "updatecheck", "manifest", "packages", "package", &k];
                    let with = |f: &str| {
                        let mut v = s(&base);
                        v.push(f.to_string());
                        v
                    };
                    out.push((with("name"), "package.name:number", J::U(1)));
                    out.push((with("required"), "required:string", J::s("true")));
                    out.push((with("required"), "required:number", J::U(1)));
                    out.push((with("fp"), "fp:number", J::U(1)));
                    if p.hash.is_some() {
                        out.push((with("hash"), "hash:number", J::U(1)));
                        out.push((with("hash"), "hash:array", J::A(vec![])));
                    }
                    if p.hash_sha256.is_some() {
                        out.push((with("hash_sha256"), "hash_sha256:number", J::U(1)));
                        out.push((with("hash_sha256"), "hash_sha256:bool", J::Bool(false)));
                    }
                    if p.size.is_some() {
                        out.push((with("size"), "size:string", J::s("12")));
                        out.push((with("size"), "size:negative", J::I(-1)));
                        out.push((with("size"), "size:float", J::Raw("1.5".into())));
                        out.push((with("size"), "size:2^64", J::Raw("18446744073709551616".into())));
                    }
                }
            }
        }
    }
    // null in place of a required member (or of a required repeated-element array) is a wrong type as well
    for (path, name) in required_paths(x) {
        let label: &'static str = match name {
            "response" => "response:null",
            "protocol" => "protocol:null",
            "app" => "app:null",
            "appid" => "appid:null",
            "app.status" => "app.status:null",
            "updatecheck.status" => "updatecheck.status:null",
            "url.codebase" => "url.codebase:null",
            "manifest.version" => "manifest.version:null",
            "package.name" => "package.name:null",
            _ => "ping.status:null",
        };
        out.push((path, label, J::Null));
    }
    for (i, a) in x.apps.iter().enumerate() {
        let i = i.to_string();
        if let Some(u) = &a.uc {
            if u.urls.is_some() {
                out.push((s(&["response", "app", &i, "updatecheck", "urls", "url"]), "url:null", J::Null));
            }
            if u.manifest.is_some() {
                out.push((s(&["response", "app", &i, "updatecheck", "manifest", "packages", "package"]), "package:null", J::Null));
                out.push((s(&["response", "app", &i, "updatecheck", "manifest", "actions", "action"]), "action:null", J::Null));
            }
        }
    }
    let _ = t;
    out
}

fn at_path<'a>(j: &'a mut J, path: &[String]) -> Option<&'a mut J> {
    let mut cur = j;
    for p in path {
        cur = match cur {
            J::O(_) => cur.get_mut(p)?,
            J::A(a) => a.get_mut(p.parse::<usize>().ok()?)?,
            _ => return None,
        };
    }
    Some(cur)
}

fn check_rejection(t: &mut Tape, ctx: &CaseCtx) -> CaseResult {
    let x = gen_xresp(t);
    let seed = t.u64_full();
    let mut j = render(&x, seed);
    let delete = t.flag();
    let what;
    if delete {
        let paths = required_paths(&x);
        let (path, name) = &paths[t.choose(paths.len())];
        what = format!("deleted {name} at {}", path.join("/"));
        let (last, parent) = path.split_last().unwrap();
        let Some(p) = at_path(&mut j, parent) else {
            return Ok(CaseReport { key: hash_of(&what), ..Default::default() });
        };
        if p.remove(last).is_none() {
            return Ok(CaseReport { key: hash_of(&what), ..Default::default() });
        }
    } else {
        let mut paths = retype_paths(&x, t);
        let i = t.choose(paths.len());
        let (path, name, repl) = paths.swap_remove(i);
        what = format!("retyped {name} at {}", path.join("/"));
        let Some(p) = at_path(&mut j, &path) else {
            return Ok(CaseReport { key: hash_of(&what), ..Default::default() });
        };
        *p = repl;
    }
    let bytes = jsongen::to_bytes(&j, seed, t.choose(2) as u8);
    let case = json!({"mutation": what, "document": String::from_utf8_lossy(&bytes)});
    if let Ok(r) = parse_json_response(&bytes) {
        let class = what.split(" at ").next().unwrap_or("").to_string();
        return Err(Failure::new(format!("invalid-accepted:{class}"), format!("document with {what} was accepted: {r:?}"), case));
    }
    Ok(CaseReport {
        key: hash_of(&bytes),
        nontrivial: true,
        classes: vec![if delete { "required_field_deleted" } else { "field_retyped" }],
        sample: ctx.want_sample.then(|| case.clone()),
        ambiguous: false,
    })
}

pub fn case(t: &mut Tape, ctx: &CaseCtx) -> CaseResult {
    match t.choose(3) {
        0 => check_totality(t, ctx),
        1 => check_fidelity(t, ctx),
        _ => check_rejection(t, ctx),
    }
}

/// fixed inputs around the anti-XSSI guard (seeded change C16): the bare guard, the guard without its newline, a
/// guard whose fifth byte is not a newline in front of a valid document
fn guard_regressions() -> Vec<(String, Box<dyn Fn() -> CaseResult>)> {
    let doc = br#"{"response":{"protocol":"3.0","app":[{"appid":"a","status":"ok"}]}}"#.to_vec();
    let mut v: Vec<(String, Box<dyn Fn() -> CaseResult>)> = vec![];
    let mut inputs: Vec<(String, Vec<u8>, bool)> = vec![
        ("bare guard".into(), b")]}'".to_vec(), true),
        ("guard + newline only".into(), b")]}'\n".to_vec(), true),
        ("three bytes of the guard".into(), b")]}".to_vec(), true),
        ("guarded document".into(), [&b")]}'\n"[..], &doc[..]].concat(), false),
    ];
    for b in [b'X', b' ', b'\r', b'{', 0u8, 0xff] {
        inputs.push((format!("guard + byte {b:#x} + document"), [&b")]}'"[..], &[b][..], &doc[..]].concat(), true));
    }
    for (label, bytes, must_reject) in inputs {
        v.push((
            label.clone(),
            Box::new(move || {
                let r = parse_json_response(&bytes);
                if must_reject && r.is_ok() {
                    return Err(Failure::new("damaged-prefix-accepted", format!("{label}: accepted {:?}", String::from_utf8_lossy(&bytes)), json!({"input": String::from_utf8_lossy(&bytes)})));
                }
                if !must_reject && r.is_err() {
                    return Err(Failure::new("valid-rejected", format!("{label}: rejected"), json!({"input": String::from_utf8_lossy(&bytes)})));
                }
                Ok(CaseReport { key: hash_of(&bytes), nontrivial: true, classes: vec!["fixed_guard_input"], ..Default::default() })
            }),
        ));
    }
    v
}

pub fn run(mut run: Run) -> i32 {
    run.replay_committed(&case);
    run.fixed("regression inputs around the anti-XSSI guard", guard_regressions());
    let n = run.n(100_000, 2_000_000);
    run.random("totality", &[Tape::encode_choice(0, 3)], n, 300, &case);
    run.random("fidelity", &[Tape::encode_choice(1, 3)], n, 400, &case);
    run.random("rejection", &[Tape::encode_choice(2, 3)], n, 400, &case);
    run.finish(
        RULE,
        1000,
        &[
            "serde_json is the JSON tokenizer on both sides; the grammar, field names and typing rules are restated independently",
            "documents with duplicate keys and null for optional fields are not generated (verdict left open by the statement)",
            "extension-attribute nesting is kept <= 4 in well-formed documents (serde_json's recursion limit of 128 is the totality half)",
            "rejection uses only protocol-mandatory fields for deletion; re-typing uses JSON types that cannot represent the field",
        ],
    )
}

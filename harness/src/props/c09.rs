//! C09 — Cohort and user-counting data follow the server and persist.

use super::flow::*;
use crate::engine::*;
use crate::sim::{gen::*, types::*};
use crate::tape::Tape;
use serde_json::{json, Value};
use std::collections::BTreeMap;

pub const RULE: &str = "a case = 1-3 lives (restarts, some after a crash at a generated interaction) of 1-3 checks over 1-4 apps \
(any order, possibly unknown to the server) whose responses name any subset with cohort / cohorthint / cohortname each \
present-nonempty / present-empty / absent and daystart absent / without / with elapsed_days, interleaved with failed \
checks and pings in reboot waits; the embedder presets any subset of the fields per app and the same presets are used at \
every restart. Oracle: a model map app -> fields: after a successful check or ping present fields replace (even empty), \
absent keep, the day number is taken or cleared; failed exchanges and unnamed apps change nothing; compared with every \
update-check / ping request on the wire (cohort fields, ad = rd = day), the apps argument of every policy call, the \
committed per-app record at the commit that ends the check (after a successful ping: at the point the flow next asks for a timing), and the restored values after each restart (preset fields \
win). non-trivial = a present-empty field, or >= 2 apps updated differently, or a restart with mixed presets; distinct by script hash.";

pub fn profile() -> Profile {
    Profile { max_apps: 4, cohorts: true, outcome_w: [12, 2, 1, 1, 2, 1, 2], cup: (1, 4), offer_w: 2, retry_after: (1, 10), ..Default::default() }
}

type Fields = ([Option<String>; 3], Option<u32>);

fn parse_stored(s: &str) -> Option<Fields> {
    let v: Value = serde_json::from_str(s).ok()?;
    let c = v.get("cohort")?;
    let f = |k: &str| c.get(k).and_then(|x| x.as_str()).map(|x| x.to_string());
    let days = v.get("user_counting")?.get("ClientRegulatedByDate")?.as_u64().map(|d| d as u32);
    Some(([f("cohort"), f("cohorthint"), f("cohortname")], days))
}

pub fn check_history(h: &Hist) -> Result<(bool, Vec<&'static str>), Failure> {
    let log = &h.log;
    let presets: Vec<Fields> = h.script.apps.iter().map(|a| (a.cohort.clone(), a.days)).collect();
    let ids: Vec<String> = h.script.apps.iter().map(|a| a.id.clone()).collect();
    let mut model: Vec<Fields> = presets.clone();
    let mut check_start: Vec<Fields> = model.clone();
    let mut nontrivial = false;
    let mut classes: Vec<&'static str> = vec![];
    // which response answered request n
    let mut last_req: BTreeMap<usize, ReqKind> = BTreeMap::new();
    let segs = crate::model::checks(log);
    let evals = evaluate(h);
    let mut ping_commit_due = false;
    let mut pending_doc: Option<crate::respgen::XResp> = None; // accepted doc of the running check
    let apply = |model: &mut Vec<Fields>, doc: &crate::respgen::XResp, classes: &mut Vec<&'static str>, nontrivial: &mut bool| {
        let days = doc.daystart.and_then(|(d, _)| d);
        let mut distinct_updates = std::collections::HashSet::new();
        for (i, id) in ids.iter().enumerate() {
            if let Some(a) = doc.apps.iter().find(|a| &a.id == id) {
                for k in 0..3 {
                    if let Some(v) = &a.cohort[k] {
                        if v.is_empty() {
                            classes.push("present_empty_field");
                            *nontrivial = true;
                        }
                        model[i].0[k] = Some(v.clone());
                    }
                }
                model[i].1 = days;
                distinct_updates.insert(format!("{:?}", a.cohort));
            } else {
                classes.push("app_not_named");
            }
        }
        if distinct_updates.len() >= 2 {
            classes.push("apps_updated_differently");
            *nontrivial = true;
        }
    };
    let cmp_apps = |model: &Vec<Fields>, apps: &[AppView], what: &str, i: usize| -> Result<(), Failure> {
        for (k, id) in ids.iter().enumerate() {
            let Some(a) = apps.iter().find(|a| &a.id == id) else { continue };
            if a.cohort != model[k].0 || a.days != model[k].1 {
                return Err(failure(
                    &format!("app-state-wrong:{what}"),
                    format!("{what}: app {id:?} has cohort fields {:?} / day {:?}; following the server's responses it must have {:?} / {:?}", a.cohort, a.days, model[k].0, model[k].1),
                    h,
                    Some((i.saturating_sub(16), (i + 3).min(log.len()))),
                ));
            }
        }
        Ok(())
    };
    for (i, op) in log.iter().enumerate() {
        match op {
            Op::Build { life, .. } => {
                // restart: preset fields win, unset fields are restored from the committed record
                let stored = committed_at(log, i, &h.script);
                let mut mixed = false;
                for (k, id) in ids.iter().enumerate() {
                    let rec = match stored.get(id) {
                        Some(SVal::S(s)) => parse_stored(s),
                        _ => None,
                    };
                    let mut f = presets[k].clone();
                    if let Some((c, d)) = rec {
                        for j in 0..3 {
                            if f.0[j].is_none() {
                                f.0[j] = c[j].clone();
                            }
                        }
                        if f.1.is_none() {
                            f.1 = d;
                        }
                        let set = presets[k].0.iter().filter(|x| x.is_some()).count();
                        if set > 0 && set < 3 {
                            mixed = true;
                        }
                    }
                    model[k] = f;
                }
                if *life > 0 {
                    classes.push("restart");
                    if mixed {
                        classes.push("restart_with_mixed_presets");
                        nontrivial = true;
                    }
                }
                pending_doc = None;
                ping_commit_due = false;
            }
            Op::Crash { .. } | Op::MachineDropped => ping_commit_due = false,
            Op::NextTime { apps, .. } => {
                cmp_apps(&model, apps, "apps given to compute_next_update_time", i)?;
                // a successful ping is finished once the flow asks for the next timing: by then the per-app records it
                // changed are committed (an interval change may have been committed on its own before)
                if std::mem::take(&mut ping_commit_due) {
                    let c = committed_at(log, i, &h.script);
                    for (k, id) in ids.iter().enumerate() {
                        let rec = match c.get(id) {
                            Some(SVal::S(s)) => parse_stored(s),
                            _ => None,
                        };
                        if rec.as_ref() != Some(&model[k]) {
                            return Err(failure(
                                "committed-app-record-wrong-after-ping",
                                format!("after a successful ping the record committed for app {id:?} is {rec:?}; it must be {:?}", model[k]),
                                h,
                                Some((i.saturating_sub(14), (i + 2).min(log.len()))),
                            ));
                        }
                    }
                    classes.push("ping_commit_checked");
                }
            }
            Op::CheckAllowed { apps, .. } => {
                cmp_apps(&model, apps, "apps given to update_check_allowed", i)?;
                check_start = model.clone();
            }
            Op::Took(EventView::State(StateView::Checking { .. })) => check_start = model.clone(),
            Op::Http { n, view: Some(v), .. } => {
                last_req.insert(*n, v.kind);
                // the wire shows the model's values: update checks and pings show the current values, event reports
                // the values the check started with
                let want = if v.kind == ReqKind::Events { &check_start } else { &model };
                for a in &v.apps {
                    let Some(k) = ids.iter().position(|id| id == &a.id) else { continue };
                    if a.cohort != want[k].0 {
                        return Err(failure(
                            "wire-cohort-wrong",
                            format!("{:?} request #{n} sends cohort fields {:?} for app {:?}; it must send {:?}", v.kind, a.cohort, a.id, want[k].0),
                            h,
                            Some((i.saturating_sub(12), (i + 2).min(log.len()))),
                        ));
                    }
                    if let Some((ad, rd)) = a.ping {
                        let d = want[k].1.map(|x| x as u64);
                        if ad != d || rd != d {
                            return Err(failure(
                                "wire-ping-dates-wrong",
                                format!("{:?} request #{n} sends ping ad={ad:?} rd={rd:?} for app {:?}; both must be the last day number {d:?}", v.kind, a.id),
                                h,
                                Some((i.saturating_sub(12), (i + 2).min(log.len()))),
                            ));
                        }
                    }
                }
            }
            Op::HttpDone { n, answer } => {
                if last_req.get(n) == Some(&ReqKind::Ping) {
                    // a successful ping updates like a successful check
                    if let HttpAnswer::Response { authentic: true, status, body: BodyView::Doc(doc), .. } = answer {
                        if (200..300).contains(status) {
                            apply(&mut model, doc, &mut classes, &mut nontrivial);
                            classes.push("ping_applied");
                            ping_commit_due = true;
                        }
                    }
                }
            }
            Op::Took(EventView::Result(r)) => {
                // successful check: the accepted document applies
                if matches!(r, ResultView::Ok(_)) {
                    if let Some(ev) = evals.iter().find(|e| e.seg.result_at == Some(i)) {
                        if let Some(doc) = &ev.expect.doc {
                            if ev.expect.complete && !ev.expect.poll_ambiguous {
                                apply(&mut model, doc, &mut classes, &mut nontrivial);
                                pending_doc = Some(doc.clone());
                                classes.push("check_applied");
                            } else {
                                // the reference model could not follow this check: stop judging this history
                                classes.push("model_unavailable");
                                break;
                            }
                        }
                    }
                } else {
                    classes.push("failed_check");
                }
            }
            Op::Committed { .. } => {
                // at the commit that ends a check (the first commit after its result) the per-app records hold the model
                let after_result = segs.iter().any(|s| s.result_at.map(|r| r < i && !log[r + 1..i].iter().any(|o| matches!(o, Op::Committed { .. } | Op::Build { .. } | Op::MachineDropped | Op::Crash { .. }))).unwrap_or(false));
                if after_result {
                    let c = committed_at(log, i + 1, &h.script);
                    for (k, id) in ids.iter().enumerate() {
                        let rec = match c.get(id) {
                            Some(SVal::S(s)) => parse_stored(s),
                            _ => None,
                        };
                        if rec.as_ref() != Some(&model[k]) {
                            return Err(failure(
                                "committed-app-record-wrong",
                                format!("the record committed for app {id:?} with the check's result is {rec:?}; it must be {:?}", model[k]),
                                h,
                                Some((i.saturating_sub(10), (i + 2).min(log.len()))),
                            ));
                        }
                    }
                }
            }
            _ => {}
        }
    }
    let _ = pending_doc;
    classes.sort();
    classes.dedup();
    Ok((nontrivial, classes))
}

pub fn case(t: &mut Tape, ctx: &CaseCtx) -> CaseResult {
    let nl = 1 + t.choose(3);
    let lives: Vec<LifePlan> = (0..nl).map(|_| LifePlan { oneshot: t.chance(1, 8), checks: 1 + t.choose(3), crash_at: if t.chance(1, 4) { Some(1 + t.choose(150)) } else { None }, wall_at_start: None }).collect();
    let mut script = gen_script(t, &profile());
    if t.chance(1, 3) {
        script.reboot_needed = vec![true; 3];
        script.reboot_allowed = vec![(false, false), (false, false), (false, false), (true, true)];
    }
    if t.chance(1, 4) {
        // an embedder that uses the shared app set / storage in reaction to events (holds the mutex during the next poll)
        script.busy_app_set_mask = t.raw() | t.raw();
        script.busy_storage_mask = t.raw() & t.raw();
    }
    let h = run_history(script, &lives);
    let (nontrivial, mut classes) = check_history(&h)?;
    if h.log.iter().any(|o| matches!(o, Op::EmbedderHoldsAppSet)) {
        classes.push("embedder_holds_app_set_during_a_poll");
    }
    Ok(CaseReport {
        key: hash_of(&format!("{:?}{:?}", h.script, lives)),
        nontrivial,
        classes,
        sample: ctx.want_sample.then(|| json!({"lives": format!("{lives:?}"), "apps": script_json(&h.script)["apps"], "http_script": script_json(&h.script)["http"]})),
        ambiguous: false,
    })
}

pub fn run(mut run: Run) -> i32 {
    run.replay_committed(&case);
    run.random("multi-app histories with restarts", &[], run.n(200_000, 2_000_000), 700, &case);
    run.finish(
        RULE,
        500,
        &["responses never name the same app twice", "the embedder passes the same presets at every restart", "storage works in these histories"],
    )
}

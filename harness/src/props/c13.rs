//! C13 — Event stream is ordered, lossless and back-pressured.

use super::flow::*;
use super::sched::*;
use crate::engine::*;
use crate::sim::exec::Wk;
use crate::sim::types::*;
use crate::tape::Tape;
use futures::{prelude::*, stream::FusedStream};
use omaha_client::async_generator::{generate, GeneratorState, Yield};
use serde_json::json;
use std::{
    pin::Pin,
    sync::{
        atomic::{AtomicUsize, Ordering},
        Arc, Mutex,
    },
    task::{Context, Poll, Waker},
};

pub const RULE: &str = "mode 0: generator programs over {yield v, yield-all [v..], self-wake, wait on external gate, drop the yield \
handle, return r} run through async_generator::generate and consumed as the raw stream / into_yielded / into_complete / \
into_try_stream under strict (poll only when woken) and adversarial (spurious polls) schedules with gates opened in \
generated order, then polled past termination; oracle: items exactly once in program order, then exactly one completion, \
then end, is_terminated consistent, and a side effect placed after yield i is logged only after the consumer took item i; \
no stall. mode 1: the state machine with all environment operations gated, installer progress sequences of 0-8 values, \
held consumer; oracle: first request after took(CheckingForUpdates), perform_install after took(InstallingUpdate), \
perform_reboot after took(WaitingForReboot), every progress value taken in order before the install outcome is \
announced, events of a check in emission order, no lost wake-up. \
non-trivial = program with >= 2 yields separated by an external wait, or an early handle drop, or a progress sequence >= 2; \
distinct by case hash.";

// ------------------------------------------------------------------------------------------
// mode 0: generator programs

#[derive(Clone, Debug)]
enum POp {
    Yield(u32),
    YieldAll(Vec<u32>),
    SelfWake,
    Wait(usize),
    DropHandle,
}

#[derive(Default)]
struct GWorld {
    log: Vec<String>,
    gates: Vec<(bool, Option<Waker>)>,
}
type GW = Arc<Mutex<GWorld>>;

struct GGate(GW, usize);
impl Future for GGate {
    type Output = ();
    fn poll(self: Pin<&mut Self>, cx: &mut Context<'_>) -> Poll<()> {
        let mut g = lock(&self.0);
        if g.gates[self.1].0 {
            Poll::Ready(())
        } else {
            g.gates[self.1].1 = Some(cx.waker().clone());
            Poll::Pending
        }
    }
}
fn yield_once() -> impl Future<Output = ()> {
    let mut done = false;
    future::poll_fn(move |cx| {
        if done {
            Poll::Ready(())
        } else {
            done = true;
            cx.waker().wake_by_ref();
            Poll::Pending
        }
    })
}

async fn run_prog(co: Yield<u32>, prog: Vec<POp>, w: GW) {
    let mut co = Some(co);
    for op in prog {
        match op {
            POp::Yield(v) => {
                if let Some(c) = co.as_mut() {
                    c.yield_(v).await;
                    lock(&w).log.push(format!("after {v}"));
                }
            }
            POp::YieldAll(vs) => {
                if let Some(c) = co.as_mut() {
                    let last = vs.last().copied();
                    c.yield_all(vs).await;
                    if let Some(l) = last {
                        lock(&w).log.push(format!("after {l}"));
                    }
                }
            }
            POp::SelfWake => yield_once().await,
            POp::Wait(g) => GGate(w.clone(), g).await,
            POp::DropHandle => {
                co = None;
                lock(&w).log.push("handle dropped".into());
            }
        }
    }
    lock(&w).log.push("task returned".into());
}

enum Item {
    Val(u32),
    Complete(Option<u32>),
}

fn case_generator(t: &mut Tape, ctx: &CaseCtx) -> CaseResult {
    // program
    let nops = t.choose(9);
    let mut next_val = 1u32;
    let mut ngates = 0usize;
    let mut prog = vec![];
    for _ in 0..nops {
        prog.push(match t.weighted(&[5, 2, 2, 3, 1]) {
            0 => {
                next_val += 1;
                POp::Yield(next_val)
            }
            1 => {
                let n = t.choose(4);
                POp::YieldAll((0..n).map(|_| {
                    next_val += 1;
                    next_val
                }).collect())
            }
            2 => POp::SelfWake,
            3 => {
                ngates += 1;
                POp::Wait(ngates - 1)
            }
            _ => POp::DropHandle,
        });
    }
    let ret_err = t.chance(1, 3).then(|| t.choose(100) as u32);
    let adaptor = t.choose(4); // 0 raw, 1 into_yielded, 2 into_complete, 3 into_try_stream
    let spurious = t.flag();
    let case = json!({"program": format!("{prog:?}"), "return": format!("{ret_err:?}"), "adaptor": (["raw", "into_yielded", "into_complete", "into_try_stream"][adaptor]), "spurious_polls": spurious});

    // expected yields (until the handle is dropped)
    let mut expected: Vec<u32> = vec![];
    let mut dropped = false;
    for op in &prog {
        match op {
            POp::Yield(v) if !dropped => expected.push(*v),
            POp::YieldAll(vs) if !dropped => expected.extend(vs),
            POp::DropHandle => dropped = true,
            _ => {}
        }
    }

    let w: GW = Arc::new(Mutex::new(GWorld { log: vec![], gates: (0..ngates).map(|_| (false, None)).collect() }));
    let w2 = w.clone();
    let prog2 = prog.clone();
    // all adaptors are mapped onto one item type
    let mut stream: Pin<Box<dyn FusedStream<Item = Item>>> = match adaptor {
        0 => Box::pin(
            generate(move |co| async move {
                run_prog(co, prog2, w2).await;
                ret_err
            })
            .map(|s| match s {
                GeneratorState::Yielded(v) => Item::Val(v),
                GeneratorState::Complete(r) => Item::Complete(r),
            }),
        ),
        1 => Box::pin(generate(move |co| run_prog(co, prog2, w2)).into_yielded().map(Item::Val)),
        2 => Box::pin(
            generate(move |co| async move {
                run_prog(co, prog2, w2).await;
                ret_err
            })
            .into_complete()
            .map(Item::Complete)
            .into_stream()
            .fuse(),
        ),
        _ => Box::pin(
            generate(move |co| async move {
                run_prog(co, prog2, w2).await;
                match ret_err {
                    Some(e) => Err(e),
                    None => Ok(()),
                }
            })
            .into_try_stream()
            .map(|r| match r {
                Ok(v) => Item::Val(v),
                Err(e) => Item::Complete(Some(e)),
            }),
        ),
    };

    let root = Arc::new(Wk(AtomicUsize::new(1)));
    let mut polled_at = 0usize;
    let mut got: Vec<u32> = vec![];
    let mut completions: Vec<Option<u32>> = vec![];
    let mut ended = false;
    let mut polls_after_end = 0;
    let bad = |sig: &str, msg: String, w: &GW| Err(Failure::new(sig, msg, json!({"case": case, "log": lock(w).log.clone()})));
    let mut budget = 400;
    loop {
        budget -= 1;
        if budget == 0 {
            return bad("generator-livelock", "the consumer was polled 400 times without reaching the end".into(), &w);
        }
        let woken = root.0.load(Ordering::SeqCst) != polled_at;
        let pending_gates: Vec<usize> = lock(&w).gates.iter().enumerate().filter(|(_, g)| !g.0).map(|(i, _)| i).collect();
        if ended {
            // polled past termination: must stay ended
            if polls_after_end >= 3 {
                break;
            }
            polls_after_end += 1;
        } else if !woken {
            // strict: nothing to poll; open a gate (generated order) or detect a stall
            if pending_gates.is_empty() {
                return bad("generator-stalled", "the stream is not finished, nothing woke the consumer and no external gate is pending: lost wake-up".into(), &w);
            }
            let g = pending_gates[t.choose(pending_gates.len())];
            let wk = {
                let mut gw = lock(&w);
                gw.gates[g].0 = true;
                gw.log.push(format!("gate {g} opened"));
                gw.gates[g].1.take()
            };
            if let Some(wk) = wk {
                wk.wake();
            }
            if !(spurious && t.flag()) {
                continue;
            }
        } else if spurious && !pending_gates.is_empty() && t.chance(1, 4) {
            // adversarial: open a gate before polling although the consumer is already runnable
            let g = pending_gates[t.choose(pending_gates.len())];
            let wk = {
                let mut gw = lock(&w);
                gw.gates[g].0 = true;
                gw.log.push(format!("gate {g} opened"));
                gw.gates[g].1.take()
            };
            if let Some(wk) = wk {
                wk.wake();
            }
        }
        polled_at = root.0.load(Ordering::SeqCst);
        let wk = futures::task::waker(root.clone());
        let mut cx = Context::from_waker(&wk);
        let term_before = stream.is_terminated();
        match stream.as_mut().poll_next(&mut cx) {
            Poll::Ready(Some(Item::Val(v))) => {
                if ended {
                    return bad("item-after-end", format!("item {v} after the stream ended"), &w);
                }
                if term_before {
                    return bad("terminated-but-yielding", format!("is_terminated() was true but the stream produced {v}"), &w);
                }
                lock(&w).log.push(format!("took {v}"));
                got.push(v);
                // Ready(Some) owes no wake-up: the consumer may poll again at will
                root.0.fetch_add(1, Ordering::SeqCst);
            }
            Poll::Ready(Some(Item::Complete(r))) => {
                if ended {
                    return bad("completion-after-end", "completion after the stream ended".into(), &w);
                }
                lock(&w).log.push("took completion".into());
                completions.push(r);
                root.0.fetch_add(1, Ordering::SeqCst);
            }
            Poll::Ready(None) => {
                ended = true;
            }
            Poll::Pending => {
                if ended {
                    return bad("pending-after-end", "the stream returned Pending after it had ended".into(), &w);
                }
                if term_before {
                    return bad("terminated-but-pending", "is_terminated() was true but the stream is Pending".into(), &w);
                }
            }
        }
        if ended && !stream.is_terminated() {
            return bad("ended-but-not-terminated", "the stream returned None but is_terminated() is false".into(), &w);
        }
        // after taking an item / completion the strict consumer polls again only if woken: the generator must have woken it
    }
    // lossless, ordered, exactly once
    let log = lock(&w).log.clone();
    let want_vals: Vec<u32> = match adaptor {
        2 => vec![],
        _ => expected.clone(),
    };
    if got != want_vals {
        return bad("items-lost-duplicated-or-reordered", format!("consumer received {got:?}, the program yielded {want_vals:?}"), &w);
    }
    let want_completions: Vec<Option<u32>> = match adaptor {
        0 | 2 => vec![ret_err],
        1 => vec![],
        _ => ret_err.map(|e| vec![Some(e)]).unwrap_or_default(),
    };
    if completions != want_completions {
        return bad("completion-count", format!("completions {completions:?}, expected {want_completions:?}"), &w);
    }
    // back-pressure: "after v" only after "took v" (into_complete discards items inside the adaptor: no took entries)
    if adaptor != 2 {
        for (i, l) in log.iter().enumerate() {
            if let Some(v) = l.strip_prefix("after ") {
                if !log[..i].iter().any(|x| x == &format!("took {v}")) {
                    return bad("producer-ran-ahead", format!("the code after the emission of {v} ran before the consumer took {v}"), &w);
                }
            }
        }
        // the completion is delivered only after every item
        if let Some(c) = log.iter().position(|l| l == "took completion") {
            if log[c..].iter().any(|l| l.starts_with("took ") && l != "took completion") {
                return bad("completion-before-items", "the completion was delivered before all items".into(), &w);
            }
        }
    }
    if !log.iter().any(|l| l == "task returned") {
        return bad("task-not-run-to-completion", "the stream ended before the generator task returned".into(), &w);
    }
    let yields_separated_by_wait = {
        let mut seen_yield = false;
        let mut wait_after = false;
        let mut ok = false;
        for op in &prog {
            match op {
                POp::Yield(_) | POp::YieldAll(_) => {
                    if seen_yield && wait_after {
                        ok = true;
                    }
                    seen_yield = true;
                    wait_after = false;
                }
                POp::Wait(_) => wait_after = true,
                _ => {}
            }
        }
        ok
    };
    let early_drop = prog.iter().position(|o| matches!(o, POp::DropHandle)).map(|i| prog[i..].iter().any(|o| matches!(o, POp::Yield(_) | POp::YieldAll(_)))).unwrap_or(false);
    let mut classes = vec!["generator_program", ["adaptor_raw", "adaptor_into_yielded", "adaptor_into_complete", "adaptor_into_try_stream"][adaptor]];
    if early_drop {
        classes.push("early_handle_drop");
    }
    if yields_separated_by_wait {
        classes.push("yields_separated_by_external_wait");
    }
    Ok(CaseReport {
        key: hash_of(&case.to_string()),
        nontrivial: yields_separated_by_wait || early_drop,
        classes,
        sample: ctx.want_sample.then(|| json!({"case": case, "log": log})),
        ambiguous: false,
    })
}

// ------------------------------------------------------------------------------------------
// mode 1: the state machine

pub fn check_log(h: &Hist, info: &SchedInfo) -> Result<(bool, Vec<&'static str>), Failure> {
    let log = &h.log;
    let mut classes: Vec<&'static str> = vec![];
    let mut nontrivial = false;
    if let Some(s) = &info.stalled {
        return Err(failure("stalled", format!("lost wake-up or deadlock: {s}; steps {:?}", info.steps), h, Some((log.len().saturating_sub(25), log.len()))));
    }
    // an embedder that locks the shared app set / storage after taking an event and before polling again would wait for
    // a lock that only its own next poll can release: a deadlock no waker resolves
    if let Some(i) = log.iter().position(|o| matches!(o, Op::LockHeldAtEmission { .. })) {
        let Op::LockHeldAtEmission { which } = &log[i] else { unreachable!() };
        return Err(failure("shared-lock-held-across-emission", format!("the state machine is suspended in an emission (the observer has just taken an event) while it holds the lock of the shared {which}: a consumer that locks it before polling again deadlocks the flow"), h, Some((i.saturating_sub(8), (i + 3).min(log.len())))));
    }
    // exactly once: the flow never announces the same state twice in a row (every check runs Checking -> outcome ->
    // [WaitingForReboot] -> Idle), so two identical consecutive state events are one emission delivered twice
    {
        let mut last: Option<(usize, &StateView)> = None;
        for (i, o) in log.iter().enumerate() {
            match o {
                Op::Build { .. } => last = None,
                Op::Took(EventView::State(st)) => {
                    if let Some((j, prev)) = last {
                        if prev == st {
                            return Err(failure("state-delivered-twice", format!("the observer received the state {st:?} twice in a row (log positions {j} and {i}): one emission, delivered twice"), h, Some((j.saturating_sub(4), (i + 3).min(log.len())))));
                        }
                    }
                    last = Some((i, st));
                }
                _ => {}
            }
        }
    }
    let segs = crate::model::checks(log);
    for s in &segs {
        let around = Some((s.start.saturating_sub(2), (s.end + 2).min(log.len())));
        let ops = &log[s.start..s.end];
        let pos = |f: &dyn Fn(&Op) -> bool| ops.iter().position(|o| f(o));
        // code after an emission runs only after the consumer took the event
        let took_checking = pos(&|o| matches!(o, Op::Took(EventView::State(StateView::Checking { .. }))));
        let first_http = pos(&|o| matches!(o, Op::Http { .. }));
        if let Some(hh) = first_http {
            if took_checking.map(|t| t > hh).unwrap_or(true) {
                return Err(failure("request-before-checking-taken", "the first request was sent before the observer took CheckingForUpdates".to_string(), h, around));
            }
        }
        let took_installing = pos(&|o| matches!(o, Op::Took(EventView::State(StateView::Installing))));
        if let Some(i) = pos(&|o| matches!(o, Op::Install { .. })) {
            if took_installing.map(|t| t > i).unwrap_or(true) {
                return Err(failure("install-before-installing-taken", "perform_install started before the observer took InstallingUpdate".to_string(), h, around));
            }
        }
        // progress: every value taken, in order, before its delivery future completes and before the outcome is announced
        let sent: Vec<(usize, f32)> = ops.iter().enumerate().filter_map(|(k, o)| if let Op::Progress { value, .. } = o { Some((k, *value)) } else { None }).collect();
        let taken: Vec<(usize, f32)> = ops.iter().enumerate().filter_map(|(k, o)| if let Op::Took(EventView::Progress(v)) = o { Some((k, *v)) } else { None }).collect();
        let done: Vec<usize> = ops.iter().enumerate().filter_map(|(k, o)| if let Op::ProgressDone { .. } = o { Some(k) } else { None }).collect();
        let complete = s.result_at.is_some();
        let concurrent = ops.iter().any(|o| matches!(o, Op::Progress { batch, .. } if *batch > 1));
        if concurrent {
            classes.push("concurrent_progress_reports");
        }
        if complete || taken.len() > sent.len() {
            // sequential reports arrive in order; reports issued concurrently arrive in some order, each exactly once
            // values inside the documented 0..1 fraction must arrive unchanged; for a value outside it only delivery is
            // required (an implementation may clamp it), and when a NaN was reported only the number of deliveries
            let norm = |v: f32| if v.is_nan() { 0 } else { v.clamp(0.0, 1.0).to_bits() };
            let any_nan = sent.iter().any(|x| x.1.is_nan());
            let mut a: Vec<u32> = taken.iter().map(|x| if any_nan { 0 } else { norm(x.1) }).collect();
            let mut b: Vec<u32> = sent.iter().map(|x| if any_nan { 0 } else { norm(x.1) }).collect();
            if concurrent {
                a.sort();
                b.sort();
            }
            if a != b {
                return Err(failure("progress-lost-or-reordered", format!("installer reported progress {:?}, the observer received {:?}", sent.iter().map(|x| x.1).collect::<Vec<_>>(), taken.iter().map(|x| x.1).collect::<Vec<_>>()), h, around));
            }
        }
        // (receive_progress may complete once the state machine has accepted the value; the statement only
        // requires delivery in order before the outcome, so completion order is not asserted)
        let _ = &done;
        if let Some(outcome) = pos(&|o| matches!(o, Op::Took(EventView::State(StateView::InstallationError)) | Op::Took(EventView::Result(_)))) {
            if taken.iter().any(|(k, _)| *k > outcome) || sent.len() != taken.len() && complete {
                return Err(failure("progress-after-outcome", "a progress value was delivered after the install outcome was announced".to_string(), h, around));
            }
        }
        if sent.len() >= 2 {
            nontrivial = true;
            classes.push("progress_sequence");
        }
    }
    // reboot only after the observer took WaitingForReboot
    for (i, op) in log.iter().enumerate() {
        if let Op::Reboot { .. } = op {
            let took = log[..i].iter().rposition(|o| matches!(o, Op::Took(EventView::State(StateView::WaitingForReboot))));
            let last_check = log[..i].iter().rposition(|o| matches!(o, Op::Took(EventView::Result(_))));
            if took.is_none() || took < last_check {
                return Err(failure("reboot-before-waiting-taken", "perform_reboot before the observer took WaitingForReboot".to_string(), h, Some((i.saturating_sub(10), i + 1))));
            }
            classes.push("reboot");
        }
    }
    if info.held_steps > 0 {
        classes.push("consumer_held");
    }
    classes.sort();
    classes.dedup();
    Ok((nontrivial, classes))
}

/// the state machine over the full generated script space (all outcome classes, installs, reboot waits, restarts), polled
/// eagerly: ordering and progress rules, and no shared lock held while suspended in an emission
fn case_machine_eager(t: &mut Tape, ctx: &CaseCtx) -> CaseResult {
    let p = crate::sim::gen::Profile { offer_w: 5, ..Default::default() };
    let mut script = crate::sim::gen::gen_script(t, &p);
    if t.flag() {
        script.reboot_needed = vec![true; 3];
        script.reboot_allowed = vec![(false, false), (false, false), (true, true)];
    }
    let lives = [LifePlan { oneshot: t.chance(1, 6), checks: 1 + t.choose(3), crash_at: None, wall_at_start: None }, LifePlan::new(false, 1, None)];
    let n_lives = 1 + t.choose(2);
    // (seed C13r) one eager case in four replaces one progress value by one outside the documented 0..1 fraction (float
    // overshoot, > 1, negative, infinite, NaN): receive_progress takes any f32 and the statement says *every* reported
    // value is delivered. Drawn last, so tapes recorded before this draw existed still decode to the same case.
    let mut widened = false;
    if t.choose(4) != 0 && !script.installs.is_empty() {
        let k = t.choose(script.installs.len());
        if !script.installs[k].progress.is_empty() {
            let j = t.choose(script.installs[k].progress.len());
            script.installs[k].progress[j] = [1.000_000_1f32, 1.5, -0.25, f32::INFINITY, f32::NAN, 1.0e30, -1.0e-7][t.choose(7)];
            widened = true;
        }
    }
    let h = run_history(script, &lives[..n_lives]);
    let (nontrivial, mut classes) = check_log(&h, &SchedInfo::default())?;
    classes.push("state_machine_eager");
    if widened && h.log.iter().any(|o| matches!(o, Op::Progress { value, .. } if !(0.0..=1.0).contains(value))) {
        classes.push("progress_value_outside_unit_interval_reported");
    }
    Ok(CaseReport { key: hash_of(&format!("{:?}", h.script)), nontrivial, classes, sample: ctx.want_sample.then(|| json!({"events_taken": h.log.iter().filter(|o| matches!(o, Op::Took(_))).count()})), ambiguous: false })
}

fn case_machine(t: &mut Tape, ctx: &CaseCtx) -> CaseResult {
    if t.chance(1, 3) {
        return case_machine_eager(t, ctx);
    }
    let p = SchedProfile { requests_w: 2, drop_machine: false, offer: (5, 6), min_wait: (1, 6), switch_wakers: (1, 3), ..Default::default() };
    let (h, info) = run_scheduled(t, &p);
    let (nontrivial, mut classes) = check_log(&h, &info)?;
    // lossless: every schedule the flow computes is emitted, so the observer must receive a ScheduleChange after each
    // policy answer (the rule C12 states about the announcement, here as 'no emitted event is lost')
    if let Err(f) = super::c12::check_log_upto(&h, &info, h.log.len()) {
        if f.signature == "schedule-not-announced" {
            return Err(Failure::new("event-lost:schedule-change", format!("an emitted ScheduleChange never reached the observer: {}", f.message), f.case));
        }
    }
    classes.push("state_machine");
    if h.script.switch_wakers {
        classes.push("consumer_polls_with_alternating_wakers");
    }
    Ok(CaseReport {
        key: hash_of(&format!("{:?}{:?}", h.script, info.steps)),
        nontrivial,
        classes,
        sample: ctx.want_sample.then(|| {
            json!({"steps": info.steps, "order": h.log.iter().filter_map(|o| match o {
                Op::Took(v) => Some(format!("took {}", format!("{v:?}").chars().take(60).collect::<String>())),
                Op::Http { view: Some(v), .. } => Some(format!("request {:?}", v.kind)),
                Op::Install { .. } => Some("perform_install".into()),
                Op::Progress { i, value, batch } => Some(format!("installer reports progress #{i} {value} (batch of {batch})")),
                Op::ProgressDone { i } => Some(format!("receive_progress #{i} completed")),
                Op::Reboot { .. } => Some("perform_reboot".into()),
                _ => None }).take(50).collect::<Vec<_>>()})
        }),
        ambiguous: false,
    })
}

pub fn case(t: &mut Tape, ctx: &CaseCtx) -> CaseResult {
    match t.choose(2) {
        0 => case_generator(t, ctx),
        _ => case_machine(t, ctx),
    }
}

pub fn run(mut run: Run) -> i32 {
    run.replay_committed(&case);
    run.random("generator programs x schedules", &[Tape::encode_choice(0, 2)], run.n(200_000, 4_000_000), 120, &case);
    run.random("state machine, gated environment", &[Tape::encode_choice(1, 2)], run.n(150_000, 1_500_000), 400, &case);
    run.finish(
        RULE,
        300,
        &[
            "the harness executor polls a task only when its waker fired (strict) plus generated spurious polls; a quiescent unfinished run with no gate left is reported as a lost wake-up",
            "futures' mpsc and select! are part of the code under test",
            "a progress value counts as reported once the future returned by receive_progress has been polled; an installer may drop that future unfinished and complete in the same poll (an 'impatient' installer), and the value must still be delivered before the outcome",
        ],
    )
}

//! C14 — No input can crash the updater; storage failures are harmless.

use super::flow::*;
use crate::engine::*;
use crate::sim::{exec::RunEnd, gen::*, logsub::with_logging, types::*};
use crate::tape::Tape;
use serde_json::{json, Value};

pub const RULE: &str = "mode 0 (robustness): the real state machine, with a log subscriber ON or OFF, over arbitrary response \
bytes / header values / statuses, pre-existing storage in which every key the library reads holds wrong types and extremes \
(i64::MIN/MAX, u32::MAX +- 1, negatives, empty / huge strings, malformed per-app JSON), arbitrary service-URL strings, \
clock trajectories with backward / pre-epoch / far-future wall jumps and a monotone monotonic component, contract-\
conforming policy and installer answers: no unwind (catch_unwind + hook recording the location), no arithmetic overflow \
(profile with overflow checks), no stall of the strict executor, and every check that begins ends with a delivered \
UpdateCheckResult. mode 1 (storage faults): a generated subset of storage writes / removes / commits fails (by index, by \
key, all, 'first of a related pair succeeds, second fails'); the run and its healthy-storage twin must produce identical \
request logs (modulo library-chosen ids / nonces) and identical event logs. non-trivial = a case containing an extreme \
stored value, arbitrary body bytes, a clock jump or >= 1 failing storage operation that was actually reached; distinct by script hash.";

pub const STORED_KEYS: &[&str] = &[
    "last_update_time",
    "server_dictated_poll_interval",
    "consecutive_failed_update_checks",
    "update_finish_time",
    "target_version",
    "install_plan_id",
    "update_first_seen_time",
    "consecutive_failed_install_attempts",
];

pub fn gen_stored_value(t: &mut Tape) -> SVal {
    match t.choose(3) {
        0 => SVal::I(match t.choose(3) {
            0 => *t.pick(&[
                i64::MAX, i64::MIN, i64::MAX - 1, i64::MIN + 1, u32::MAX as i64, u32::MAX as i64 + 1, u32::MAX as i64 - 1, -1, 0, 1, i32::MAX as i64, i32::MIN as i64,
                253_402_300_800_000_000, -62_135_596_800_000_001, 8_210_298_412_799_999_999, -8_334_632_851_200_000_001,
            ]),
            _ => t.i64_biased(),
        }),
        1 => SVal::S(match t.choose(7) {
            0 => String::new(),
            1 => "plan-0".into(),
            2 => "2.0.0.0".into(),
            3 => "x".repeat(5000),
            4 => t.text(12),
            5 => long_unicode(t, 600),
            _ => "{\"cohort\":{},\"user_counting\":{\"ClientRegulatedByDate\":null}}".into(),
        }),
        _ => SVal::B(t.flag()),
    }
}

/// long text mixing 1- to 4-byte characters (offsets of char boundaries are irregular)
fn long_unicode(t: &mut Tape, max_chars: usize) -> String {
    const A: &[char] = &['a', '\u{e9}', '\u{4e2d}', '\u{1f600}', ' ', '"', '\\', '{', '\u{7ff}', '\u{800}', 'z'];
    let n = t.choose(max_chars + 1);
    let pad = t.choose(4);
    let mut s = "x".repeat(pad);
    for _ in 0..n {
        s.push(*t.pick(A));
    }
    s
}

pub fn gen_app_record(t: &mut Tape) -> SVal {
    match t.choose(11) {
        8 => SVal::S(long_unicode(t, 700)),
        9 => {
            // a once-valid record with non-ASCII cohort text, torn at an arbitrary character
            let full = format!("{{\"cohort\":{{\"cohort\":\"1:3:\",\"cohortname\":\"{}\"}},\"user_counting\":{{\"ClientRegulatedByDate\":7}}}}", long_unicode(t, 500).replace(['"', '\\'], "_"));
            let keep = t.choose(full.chars().count() + 1);
            SVal::S(full.chars().take(keep).collect())
        }
        10 => SVal::S(format!("{{\"cohort\":{{\"cohortname\":\"{}\"}},\"user_counting\":{{\"ClientRegulatedByDate\":null}}}}", long_unicode(t, 400).replace(['"', '\\'], "_"))),
        0 => SVal::S("{".into()),
        1 => SVal::S("{\"cohort\":{\"cohort\":5},\"user_counting\":{\"ClientRegulatedByDate\":null}}".into()),
        2 => SVal::S("{\"cohort\":{\"cohort\":\"c\",\"cohorthint\":\"h\",\"cohortname\":\"n\"},\"user_counting\":{\"ClientRegulatedByDate\":4294967296}}".into()),
        3 => SVal::S("{\"cohort\":{},\"user_counting\":{\"ClientRegulatedByDate\":-1}}".into()),
        4 => SVal::S("null".into()),
        5 => SVal::I(t.i64_biased()),
        6 => SVal::S("{\"cohort\":{\"cohort\":\"\"},\"user_counting\":{\"Other\":1}}".into()),
        _ => SVal::S(format!("{{\"cohort\":{{\"cohortname\":\"{}\"}},\"user_counting\":{{\"ClientRegulatedByDate\":{}}}}}", "n".repeat(t.choose(2000)), t.u32_biased())),
    }
}

fn gen_arbitrary_http(t: &mut Tape, apps: &[AppSpec], p: &Profile) -> HttpSpec {
    match t.choose(5) {
        0 | 1 => HttpSpec::Resp(RespSpec {
            status: 100 + t.choose(500) as u16,
            retry_after: t.vec_of(2, |t| gen_retry_after_value(t, true)),
            retry_after_name_case: t.choose(5) as u8,
            body: BodySpec::Raw(RawBody::Arbitrary(match t.choose(5) {
                0 => t.bytes(40),
                4 => {
                    // the anti-XSSI guard (possibly with another line ending) and a document, cut anywhere - most often
                    // within or right after the guard
                    let d = gen_doc(t, apps, p);
                    let mut b: Vec<u8> = match t.choose(3) {
                        0 => b")]}'\n".to_vec(),
                        1 => b")]}'\r\n".to_vec(),
                        _ => b")]}'".to_vec(),
                    };
                    b.extend(crate::jsongen::to_bytes(&crate::respgen::render(&d, 0), 0, 0));
                    let keep = if t.chance(2, 3) { t.choose(9) } else { t.choose(b.len() + 1) };
                    b.truncate(keep);
                    b
                }
                1 => {
                    // a valid document with bytes flipped
                    let d = gen_doc(t, apps, p);
                    let mut b = crate::jsongen::to_bytes(&crate::respgen::render(&d, 0), 0, 0);
                    for _ in 0..1 + t.choose(3) {
                        if !b.is_empty() {
                            let i = t.choose(b.len());
                            b[i] ^= 1 << t.choose(8);
                        }
                    }
                    b
                }
                2 => {
                    // a structurally valid document with odd content: duplicated apps, huge numbers, many apps
                    let mut d = gen_doc(t, apps, p);
                    if let Some(a) = d.apps.first().cloned() {
                        for _ in 0..t.choose(3) {
                            d.apps.push(a.clone());
                        }
                    }
                    crate::jsongen::to_bytes(&crate::respgen::render(&d, t.u64_full()), 1, 1)
                }
                _ => {
                    let d = crate::respgen::gen_xresp(t);
                    crate::jsongen::to_bytes(&crate::respgen::render(&d, t.u64_full()), 2, 1)
                }
            })),
            auth: Auth::Authentic,
            prefix: t.chance(1, 5),
        }),
        _ => gen_http(t, apps, p, false),
    }
}

fn robustness_script(t: &mut Tape) -> Script {
    let p = Profile { cup: (1, 4), exotic_retry_after: true, clock_jumps: true, odd_url: (1, 4), ..Default::default() };
    let mut s = gen_script(t, &p);
    let n = s.http.len();
    for k in 0..n {
        if t.chance(1, 3) {
            s.http[k] = gen_arbitrary_http(t, &s.apps, &p);
        }
    }
    // arbitrary service URL strings
    if t.chance(1, 5) {
        s.service_url = gen_junk_url(t);
        s.junk_service_url = true;
    }
    if t.chance(1, 4) {
        s.content_type_mask = t.raw();
    }
    // cohort attributes far longer than the protocol's 1024 bytes, with multi-byte characters around that offset
    if t.chance(1, 6) {
        for h in s.http.iter_mut() {
            if let HttpSpec::Resp(RespSpec { body: BodySpec::Doc(x, _), .. }) = h {
                for a in x.apps.iter_mut() {
                    if t.chance(1, 2) {
                        let k = t.choose(3);
                        let n = 1018 + t.choose(8);
                        a.cohort[k] = Some(format!("{}{}", "a".repeat(n), "\u{e9}\u{4e2d}\u{1f600}tage".repeat(1 + t.choose(3))));
                    }
                }
            }
        }
    }
    // a wall clock that leaps by more than 2^64 ms (the far future of the far future) between two readings
    if !s.clock.is_empty() && t.chance(1, 6) {
        let k = t.choose(s.clock.len());
        let secs = 18_446_744_073_709_552i128 + t.choose(1_000_000) as i128 * 1_000_000_000;
        s.clock[k].wall_jump = Some(secs * 1_000_000_000 * if t.chance(1, 4) { 400 } else { 1 });
    }
    // policy answers at the edge of their types: minimum waits that stand for 'for ever'
    for k in 0..s.timings.len() {
        if t.chance(1, 6) {
            s.timings[k].min_wait_ms = Some(u64::MAX - t.choose(3) as u64);
        }
    }
    // stored values of any type and magnitude
    for key in STORED_KEYS {
        if t.chance(1, 3) {
            s.storage_init.push((key.to_string(), gen_stored_value(t)));
        }
    }
    for a in s.apps.clone() {
        if t.chance(1, 4) {
            s.storage_init.push((a.id.clone(), gen_app_record(t)));
        }
    }
    s.log_enabled = t.flag();
    // a server that keeps answering the same way for ever (every status, timeout, ...): checks must still end
    s.repeat_last_http = t.chance(1, 3);
    s
}

/// request log modulo library-chosen values
fn request_log(h: &Hist) -> Vec<String> {
    h.log
        .iter()
        .filter_map(|o| match o {
            Op::Http { uri, method, headers, body, .. } => {
                let uri = match uri.find("cup2key=") {
                    Some(i) => {
                        let rest = &uri[i..];
                        let end = rest.find('&').unwrap_or(rest.len());
                        let kv = &rest[..end];
                        let id = kv.split(':').next().unwrap_or("");
                        format!("{}{}:<nonce>{}", &uri[..i], id, &rest[end..])
                    }
                    None => uri.clone(),
                };
                let mut v: Value = serde_json::from_slice(body).unwrap_or(Value::Null);
                if let Some(r) = v.get_mut("request").and_then(|r| r.as_object_mut()) {
                    r.remove("requestid");
                    r.remove("sessionid");
                }
                Some(format!("{method} {uri} {headers:?} {v}"))
            }
            _ => None,
        })
        .collect()
}
fn event_log(h: &Hist) -> Vec<String> {
    h.log.iter().filter_map(|o| if let Op::Took(v) = o { Some(format!("{v:?}")) } else { None }).collect()
}

fn run_guarded(script: &Script, lives: &[LifePlan]) -> Result<Hist, Failure> {
    let log_on = script.log_enabled;
    let r = catch(|| with_logging(log_on, || run_history(script.clone(), lives)));
    match r {
        Ok(h) => Ok(h),
        Err((loc, msg)) => Err(Failure::new(
            format!("panic@{}", short_loc(&loc)),
            format!("the updater panicked at {loc}: {msg} (logging {})", if log_on { "enabled" } else { "disabled" }),
            json!({"script": script_json(script), "lives": format!("{lives:?}")}),
        )),
    }
}

fn check_liveness(h: &Hist) -> Result<(), Failure> {
    for (k, e) in h.ends.iter().enumerate() {
        match e {
            RunEnd::Stalled => return Err(failure("hang", format!("life {k}: the event stream returned Pending although every environment operation had completed: the updater hangs"), h, Some((h.log.len().saturating_sub(30), h.log.len())))),
            RunEnd::PollBudget => return Err(failure("livelock", format!("life {k}: the state machine kept running (20000 polls or 50000 environment interactions) without finishing the requested checks"), h, Some((h.log.len().saturating_sub(30), h.log.len())))),
            _ => {}
        }
    }
    // every check that begins ends with a delivered result
    let mut open: Option<usize> = None;
    for (i, op) in h.log.iter().enumerate() {
        match op {
            Op::Took(EventView::State(StateView::Checking { .. })) => {
                if let Some(o) = open {
                    return Err(failure("check-without-result", "a check began but no UpdateCheckResult was delivered before the next one".to_string(), h, Some((o, i + 1))));
                }
                open = Some(i);
            }
            Op::Took(EventView::Result(_)) => open = None,
            Op::MachineDropped | Op::Crash { .. } | Op::Build { .. } => open = None,
            Op::Took(EventView::State(StateView::Idle)) | Op::StreamEnd => {
                if let Some(o) = open {
                    return Err(failure("check-without-result", "a check ended (Idle / end of stream) without a delivered UpdateCheckResult".to_string(), h, Some((o, i + 1))));
                }
            }
            _ => {}
        }
    }
    Ok(())
}

fn gen_faults(t: &mut Tape) -> FaultSpec {
    match t.choose(6) {
        0 => FaultSpec { fail_writes: t.vec_of(4, |t| t.choose(40)), ..Default::default() },
        1 => FaultSpec { fail_commits: t.vec_of(3, |t| t.choose(8)), ..Default::default() },
        2 => FaultSpec { fail_keys: vec![(*t.pick(&["install_plan_id", "update_first_seen_time", "update_finish_time", "target_version", "last_update_time", "consecutive_failed_install_attempts", "server_dictated_poll_interval", "consecutive_failed_update_checks", "app0", "app1"])).to_string()], ..Default::default() },
        3 => FaultSpec { fail_all_writes: true, fail_all_commits: t.flag(), ..Default::default() },
        4 => {
            // second of two consecutive writes fails
            let k = t.choose(30);
            FaultSpec { fail_writes: vec![k + 1], ..Default::default() }
        }
        _ => FaultSpec { fail_writes: t.vec_of(3, |t| t.choose(40)), fail_commits: t.vec_of(2, |t| t.choose(8)), fail_keys: if t.flag() { vec!["update_first_seen_time".into()] } else { vec![] }, ..Default::default() },
    }
}

pub fn case(t: &mut Tape, ctx: &CaseCtx) -> CaseResult {
    let mode = t.choose(2);
    if mode == 0 {
        let script = robustness_script(t);
        let lives = vec![LifePlan::new(t.chance(1, 8), 1 + t.choose(3), None), LifePlan::new(false, 1, None)];
        let lives = if t.flag() { lives } else { lives[..1].to_vec() };
        let h = run_guarded(&script, &lives)?;
        check_liveness(&h)?;
        let mut classes = vec!["mode_robustness", if script.log_enabled { "logging_on" } else { "logging_off" }];
        let extreme = script.storage_init.iter().any(|(_, v)| matches!(v, SVal::I(x) if x.unsigned_abs() >= u32::MAX as u64 - 1) || !matches!(v, SVal::I(_)));
        let arbitrary = script.http.iter().any(|s| matches!(s, HttpSpec::Resp(r) if matches!(r.body, BodySpec::Raw(RawBody::Arbitrary(_)))));
        let jumps = h.log.iter().any(|o| matches!(o, Op::Clock { .. }));
        if extreme {
            classes.push("extreme_stored_value");
        }
        if arbitrary {
            classes.push("arbitrary_body");
        }
        if jumps {
            classes.push("clock_jump");
        }
        if script.timings.iter().any(|x| matches!(x.min_wait_ms, Some(m) if m >= u64::MAX - 2)) {
            classes.push("policy_minimum_wait_for_ever");
        }
        if script.service_url != "http://omaha.test/" {
            classes.push("odd_service_url");
        }
        return Ok(CaseReport {
            key: hash_of(&format!("{script:?}{lives:?}")),
            nontrivial: extreme || arbitrary || jumps,
            classes,
            sample: ctx.want_sample.then(|| json!({"storage_init": script_json(&script)["storage_init"], "service_url": script.service_url, "http": script_json(&script)["http"], "clock": script_json(&script)["clock"], "logging": script.log_enabled})),
            ambiguous: false,
        });
    }
    // storage faults vs healthy twin (one life: after a restart the two runs legitimately differ)
    let p = Profile { offer_w: 5, cup: (1, 4), ..Default::default() };
    let mut script = gen_script(t, &p);
    script.log_enabled = t.flag();
    let lives = vec![LifePlan::new(t.chance(1, 8), 1 + t.choose(3), None)];
    let healthy = run_guarded(&script, &lives)?;
    check_liveness(&healthy)?;
    let mut faulty_script = script.clone();
    faulty_script.faults = gen_faults(t);
    let faulty = run_guarded(&faulty_script, &lives)?;
    check_liveness(&faulty)?;
    let reached = faulty.log.iter().filter(|o| matches!(o, Op::Storage { ok: false, .. })).count();
    // ties in the reboot wait (both timers ready) are resolved by an unseeded tie-break: only compare when neither run has a reboot wait
    let has_wait = |h: &Hist| h.log.iter().any(|o| matches!(o, Op::Took(EventView::State(StateView::WaitingForReboot))));
    let comparable = !has_wait(&healthy) && !has_wait(&faulty);
    if comparable {
        let (ra, rb) = (request_log(&healthy), request_log(&faulty));
        if ra != rb {
            let k = ra.iter().zip(&rb).position(|(a, b)| a != b).unwrap_or(ra.len().min(rb.len()));
            return Err(Failure::new(
                "storage-failure-changed-requests",
                format!("with failing storage ({:?}) the request log differs from the healthy run at request #{k}: {:?} vs {:?}", faulty_script.faults, rb.get(k).map(|s| s.chars().take(300).collect::<String>()), ra.get(k).map(|s| s.chars().take(300).collect::<String>())),
                json!({"script": script_json(&faulty_script), "lives": format!("{lives:?}")}),
            ));
        }
        let (ea, eb) = (event_log(&healthy), event_log(&faulty));
        if ea != eb {
            let k = ea.iter().zip(&eb).position(|(a, b)| a != b).unwrap_or(ea.len().min(eb.len()));
            return Err(Failure::new(
                "storage-failure-changed-events",
                format!("with failing storage ({:?}) the event log differs from the healthy run at event #{k}: {:?} vs {:?}", faulty_script.faults, eb.get(k), ea.get(k)),
                json!({"script": script_json(&faulty_script), "lives": format!("{lives:?}")}),
            ));
        }
    }
    let mut classes = vec!["mode_storage_faults"];
    if reached > 0 {
        classes.push("fault_reached");
    }
    if comparable {
        classes.push("twin_compared");
    }
    if faulty.log.iter().any(|o| matches!(o, Op::Storage { op: SOp::Commit, ok: false, .. })) {
        classes.push("commit_failed");
    }
    Ok(CaseReport {
        key: hash_of(&format!("{faulty_script:?}{lives:?}")),
        nontrivial: reached > 0 && comparable,
        classes,
        sample: ctx.want_sample.then(|| json!({"faults": format!("{:?}", faulty_script.faults), "failed_operations_reached": reached, "requests": request_log(&faulty).len(), "events": event_log(&faulty).len()})),
        ambiguous: false,
    })
}

pub fn run(mut run: Run) -> i32 {
    run.replay_committed(&case);
    run.random("robustness: arbitrary inputs, stored values, URLs, clocks", &[Tape::encode_choice(0, 2)], run.n(200_000, 2_000_000), 700, &case);
    run.random("storage faults vs healthy twin", &[Tape::encode_choice(1, 2)], run.n(100_000, 1_000_000), 700, &case);
    run.finish(
        RULE,
        500,
        &[
            "release profile with overflow-checks and debug-assertions: arithmetic overflow is a visible panic",
            "policy and installer answers honour the trait contracts (one installer result per offered app)",
            "the simulated clock moves only at non-storage interactions and by whole seconds when a wait_for timer fires, so both twin runs see the same clock",
            "runs with a reboot wait are not twin-compared (unseeded select! tie-break between the ping and reboot timers)",
        ],
    )
}

//! Wire-level part of C03: every request of simulated histories with a real CUP handler.

use super::c03::{check_decorated, nonce_is_fresh};
use super::flow::*;
use crate::engine::*;
use crate::sim::{gen::*, types::*};
use crate::tape::Tape;
use crate::urlref::split_url;
use omaha_client::cup_ecdsa::{Nonce, RequestMetadata};
use serde_json::json;

pub fn case_c03_wire(t: &mut Tape, ctx: &CaseCtx) -> CaseResult {
    let p = Profile { cup: (1, 1), odd_url: (1, 2), offer_w: 5, outcome_w: [8, 3, 1, 1, 3, 1, 1], ..Default::default() };
    let mut script = gen_script(t, &p);
    // keep reboot waits so that pings are on the wire too
    if t.flag() {
        script.reboot_needed = vec![true; 3];
        script.reboot_allowed = vec![(false, false), (false, false), (false, false), (false, false), (false, false), (true, true)];
    }
    let lives = vec![LifePlan { oneshot: t.chance(1, 8), checks: 1 + t.choose(3), crash_at: None, wall_at_start: None }];
    let h = run_history(script, &lives);
    let latest = h.script.cup.as_ref().unwrap().keys[0].0;
    let configured = match split_url(&h.script.service_url) {
        Some(c) if h.script.service_url.parse::<http::Uri>().is_ok() => c,
        _ => return Ok(CaseReport { key: hash_of(&h.script.service_url), classes: vec!["uri_rejected_by_http_crate"], ..Default::default() }),
    };
    let mut kinds = std::collections::BTreeSet::new();
    let mut nonces: Vec<[u8; 32]> = vec![];
    let mut retries = 0;
    let mut last_meta_of_ok: Option<MetaView> = None;
    let mut n_requests = 0;
    let mut uc_requests: Vec<usize> = vec![];
    let mut last_uc_answer_authentic: Option<bool> = None;
    for (i, op) in h.log.iter().enumerate() {
        let around = Some((i.saturating_sub(3), (i + 3).min(h.log.len())));
        match op {
            Op::HttpDone { n, answer } if uc_requests.contains(n) => {
                last_uc_answer_authentic = match answer {
                    HttpAnswer::Response { authentic, .. } => Some(*authentic),
                    _ => None,
                };
            }
            Op::Took(EventView::Result(ResultView::Err(e))) if e == "request:cup-validation" => {
                // the simulated server signs over the body and cup2key it received: an authentic answer can only fail
                // verification if the metadata kept for it is not that of the request that went out
                if last_uc_answer_authentic == Some(true) {
                    return Err(failure(
                        "retained-metadata-not-the-wire-request",
                        "an answer signed by the server over exactly the request it received was rejected by the verifier: the request metadata kept for verification does not hold the body / key id / nonce that were sent".to_string(),
                        &h,
                        around,
                    ));
                }
            }
            Op::Http { uri, body, view, method, n, .. } => {
                n_requests += 1;
                if matches!(view, Some(v) if v.kind == ReqKind::UpdateCheck) {
                    uc_requests.push(*n);
                }
                if method != "POST" {
                    return Err(failure("method", format!("method {method}"), &h, around));
                }
                // metadata as the client must have retained it: reconstructed from the wire (body + cup2key), then
                // compared with what the installer is later handed
                let Some(v) = view else { continue };
                let Some((kid, nonce_hex)) = &v.cup2key else {
                    return Err(failure("no-cup2key-on-wire", format!("request {uri} carries no cup2key parameter"), &h, around));
                };
                let nonce: [u8; 32] = match hex::decode(nonce_hex).ok().and_then(|b| b.try_into().ok()) {
                    Some(n) => n,
                    None => return Err(failure("cup2key-nonce-shape", format!("nonce {nonce_hex:?} is not 32 bytes of hex"), &h, around)),
                };
                let meta = RequestMetadata { request_body: body.clone(), public_key_id: *kid, nonce: Nonce::from(nonce) };
                match check_decorated(&configured, uri, body, &meta, latest) {
                    Ok(n) => {
                        if nonces.contains(&n) || !nonce_is_fresh(n) {
                            return Err(failure("nonce-reused", format!("nonce {} used twice", hex::encode(n)), &h, around));
                        }
                        nonces.push(n);
                    }
                    Err((sig, msg)) => return Err(failure(&sig, format!("{msg} [configured {}]", h.script.service_url), &h, around)),
                }
                kinds.insert(format!("{:?}", v.kind));
                if v.kind == ReqKind::UpdateCheck {
                    last_meta_of_ok = Some(MetaView { body: body.clone(), key_id: *kid, nonce });
                }
            }
            Op::TimerFor { .. } => retries += 1,
            Op::CreatePlan { meta, .. } => {
                // the metadata handed to the installer is that of the attempt whose response was accepted
                match (meta, &last_meta_of_ok) {
                    (Some(m), Some(w)) if m == w => {}
                    other => {
                        return Err(failure(
                            "installer-metadata",
                            format!("the request metadata handed to the installer is not that of the accepted attempt: {:?}", other.0.as_ref().map(|m| (m.key_id, hex::encode(m.nonce), m.body.len()))),
                            &h,
                            around,
                        ))
                    }
                }
            }
            _ => {}
        }
    }
    let mut classes: Vec<&'static str> = vec!["wire"];
    if retries > 0 {
        classes.push("with_retry");
    }
    if kinds.contains("Events") {
        classes.push("with_event_report");
    }
    if kinds.contains("Ping") {
        classes.push("with_ping");
    }
    if configured.query.is_some() {
        classes.push("url_with_query");
    }
    Ok(CaseReport {
        key: hash_of(&format!("{:?}{:?}", h.script, lives)),
        nontrivial: n_requests >= 2 && (retries > 0 || kinds.len() >= 2),
        classes,
        sample: ctx.want_sample.then(|| json!({"service_url": h.script.service_url, "wire_uris": h.log.iter().filter_map(|o| if let Op::Http { uri, .. } = o { Some(uri.clone()) } else { None }).take(8).collect::<Vec<_>>()})),
        ambiguous: false,
    })
}

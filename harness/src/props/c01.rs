//! C01 — CUP verification accepts exactly the authentic responses.

use crate::cupref::*;
use crate::engine::*;
use crate::tape::Tape;
use http::Response;
use omaha_client::cup_ecdsa::{
    Cupv2RequestHandler, Cupv2Verifier, Nonce, PublicKeys, RequestMetadata, StandardCupv2Handler,
};
use p256::ecdsa::{signature::Signature as _, DerSignature};
use serde_json::{json, Value};

pub const RULE: &str = "an exchange = (request body, response body, nonce, key set with 0-3 historical keys passed through its \
JSON/PEM serialisation, the key id used, ETag wrapping x hex case), signed by an independent signer (sha2 + p256, never \
make_transaction_hash). mode 0: the authentic exchange must be accepted with the signature bytes returned unchanged, then 12 \
sampled mutations (bit flips of signature/hash/nonce/bodies, key id swaps, re-signing with other keys, swap, truncation, \
prefixes, colon edits, 9 digest re-compositions) must each be rejected; mode 1: ALL single-bit flips of signature, hash, \
nonce and (<=64 byte) bodies; mode 2: arbitrary / text-mutated ETag values judged by a reference verifier (differential). \
non-trivial = a mutation (or differential case) of an exchange whose authentic form was accepted in the same case, or an \
accepted exchange using a historical key or non-plain wrapping; distinct by (exchange, mutation) hash. ETags with upper-case \
hex digits are only checked for no-panic and returned-bytes (accept/reject left open): counted as ambiguous.";

#[derive(Clone, Debug)]
pub struct Exchange {
    pub req: Vec<u8>,
    pub resp: Vec<u8>,
    pub nonce: [u8; 32],
    /// (id, pool key index); first is latest
    pub keys: Vec<(u64, usize)>,
    /// index into keys of the id the request is sent with
    pub used: usize,
    pub wrap: usize,
    pub hexcase: usize,
}

fn gen_body(t: &mut Tape) -> Vec<u8> {
    let body = gen_plain_body(t);
    // a fifth of the bodies carry the anti-XSSI guard the response parser strips (the signature covers it all the same)
    if t.chance(1, 5) {
        let mut b = b")]}'\n".to_vec();
        b.extend(body);
        b
    } else {
        body
    }
}

fn gen_plain_body(t: &mut Tape) -> Vec<u8> {
    match t.weighted(&[3, 3, 2, 1]) {
        0 => {
            let n = t.choose(4);
            let apps: Vec<Value> = (0..n).map(|i| json!({"appid": format!("app{i}"), "status": "ok", "cohort": t.ident(6)})).collect();
            serde_json::to_vec(&json!({"response": {"protocol": "3.0", "app": apps}})).unwrap()
        }
        1 => t.bytes(64),
        2 => vec![],
        _ => t.bytes(2048),
    }
}

pub fn gen_ids(t: &mut Tape, n: usize) -> Vec<u64> {
    let mut ids: Vec<u64> = vec![];
    while ids.len() < n {
        let id = match t.choose(4) {
            0 => t.choose(10) as u64,
            1 => *t.pick(&[0u64, 1, u64::MAX, u64::MAX - 1, i64::MAX as u64, u32::MAX as u64 + 1, 123456789]),
            2 => t.raw() as u64,
            _ => t.u64_full(),
        };
        // distinct ids: the statement speaks of "the key registered for the key id"
        let mut id = id;
        while ids.contains(&id) {
            id = id.wrapping_add(1);
        }
        ids.push(id);
    }
    ids
}

pub fn gen_exchange(t: &mut Tape) -> Exchange {
    let req = gen_body(t);
    let resp = gen_body(t);
    let mut nonce = [0u8; 32];
    match t.choose(3) {
        0 => {}
        1 => nonce = [0xff; 32],
        _ => {
            for c in nonce.chunks_mut(4) {
                c.copy_from_slice(&t.raw().to_le_bytes());
            }
        }
    }
    let nk = 1 + t.choose(4);
    let ids = gen_ids(t, nk);
    // pool keys, distinct per id
    let first = t.choose(POOL);
    let keys: Vec<(u64, usize)> = ids.iter().enumerate().map(|(i, id)| (*id, (first + i) % POOL)).collect();
    let used = t.choose(nk);
    Exchange { req, resp, nonce, keys, used, wrap: t.choose(3), hexcase: t.choose(3) }
}

pub fn wrap_etag(plain: &str, wrap: usize) -> String {
    match wrap {
        0 => plain.to_string(),
        1 => format!("\"{plain}\""),
        _ => format!("W/\"{plain}\""),
    }
}
fn apply_hexcase(plain: &str, hexcase: usize) -> String {
    match hexcase {
        0 => plain.to_string(),
        1 => plain.to_uppercase(),
        _ => plain.chars().enumerate().map(|(i, c)| if i % 3 == 0 { c.to_ascii_uppercase() } else { c }).collect(),
    }
}

pub fn handler_for(ex: &Exchange) -> Result<(StandardCupv2Handler, PublicKeys), Failure> {
    let pk = public_keys(ex.keys[0], &ex.keys[1..]);
    // through the JSON/PEM (de)serialisation, as an embedder's configuration would be: the key registered for an id must
    // be the key the configuration names for it
    let bad = |msg: String| Failure::new("key-set-configuration-roundtrip", msg, json!({"keys(id,pool)": ex.keys}));
    let js = serde_json::to_string(&pk).map_err(|e| bad(format!("PublicKeys does not serialise: {e}")))?;
    let back: PublicKeys = serde_json::from_str(&js).map_err(|e| bad(format!("PublicKeys does not deserialise from its own JSON {js}: {e}")))?;
    if back != pk {
        return Err(bad(format!("the key set read back from its JSON/PEM form differs from the configured one: ids {:?} became {:?}", std::iter::once(pk.latest.id).chain(pk.historical.iter().map(|k| k.id)).collect::<Vec<_>>(), std::iter::once(back.latest.id).chain(back.historical.iter().map(|k| k.id)).collect::<Vec<_>>())));
    }
    Ok((StandardCupv2Handler::new(&back), back))
}

fn response(etag: Option<&[u8]>, body: &[u8]) -> Option<Response<Vec<u8>>> {
    let mut b = Response::builder().status(200);
    if let Some(e) = etag {
        let v = http::HeaderValue::from_bytes(e).ok()?;
        b = b.header(http::header::ETAG, v);
    }
    b.body(body.to_vec()).ok()
}

fn meta(req: &[u8], id: u64, nonce: &[u8; 32]) -> RequestMetadata {
    RequestMetadata { request_body: req.to_vec(), public_key_id: id, nonce: Nonce::from(*nonce) }
}

/// what the implementation says: Ok(sig bytes) / Err(text)
fn verify(h: &StandardCupv2Handler, etag: Option<&[u8]>, req: &[u8], resp: &[u8], id: u64, nonce: &[u8; 32]) -> Result<Vec<u8>, String> {
    let Some(r) = response(etag, resp) else { return Err("header value not constructible".into()) };
    let m = meta(req, id, nonce);
    h.verify_response(&m, &r, m.public_key_id).map(|s| s.as_bytes().to_vec()).map_err(|e| format!("{e:?}"))
}

fn ex_json(ex: &Exchange) -> Value {
    let wrap = ["plain", "quoted", "weak"][ex.wrap];
    let hexcase = ["lower", "upper", "mixed"][ex.hexcase];
    json!({"req_hex": hex::encode(&ex.req), "resp_hex": hex::encode(&ex.resp), "nonce": hex::encode(ex.nonce),
        "keys(id,pool)": ex.keys, "used": ex.used, "wrap": wrap, "hexcase": hexcase})
}

/// One mutation of an authentic exchange; returns (name, etag bytes, req, resp, id, nonce) that MUST be rejected,
/// or None if the mutation degenerates to the authentic exchange.
type Mutated = (String, Option<Vec<u8>>, Vec<u8>, Vec<u8>, u64, [u8; 32]);

const N_STRUCT: usize = 34;

fn flip(v: &mut [u8], bit: usize) {
    v[bit / 8] ^= 1 << (bit % 8);
}

fn structural(ex: &Exchange, kind: usize, t: &mut Tape) -> Option<Mutated> {
    let (id, kidx) = ex.keys[ex.used];
    let k = key(kidx);
    let (plain, der) = authentic_etag(k, &ex.req, &ex.resp, id, &ex.nonce);
    let rh = sha(&ex.req);
    let w = |p: &str| Some(wrap_etag(p, ex.wrap).into_bytes());
    let base = |name: &str, etag: Option<Vec<u8>>| Some((name.to_string(), etag, ex.req.clone(), ex.resp.clone(), id, ex.nonce));
    let h_req = sha(&ex.req);
    let h_resp = sha(&ex.resp);
    let cup = format!("{}:{}", id, hex::encode(ex.nonce));
    let true_pre: Vec<u8> = [&h_req[..], &h_resp[..], cup.as_bytes()].concat();
    // sign an alternative pre-image with the right key
    let recomposed = |name: &str, pre: Vec<u8>| {
        if pre == true_pre {
            return None;
        }
        let der = sign_der(k, &sha(&pre));
        base(name, w(&etag_plain(&der, &rh)))
    };
    match kind {
        0 => {
            // key id -> another registered id
            if ex.keys.len() < 2 {
                return None;
            }
            let o = (ex.used + 1 + t.choose(ex.keys.len() - 1)) % ex.keys.len();
            Some(("key id changed to another registered id".into(), w(&plain), ex.req.clone(), ex.resp.clone(), ex.keys[o].0, ex.nonce))
        }
        1 => {
            let mut nid = t.u64_biased();
            while ex.keys.iter().any(|(i, _)| *i == nid) {
                nid = nid.wrapping_add(1);
            }
            Some(("key id changed to an unregistered id".into(), w(&plain), ex.req.clone(), ex.resp.clone(), nid, ex.nonce))
        }
        2 => {
            // re-signed with another registered key
            if ex.keys.len() < 2 {
                return None;
            }
            let o = (ex.used + 1 + t.choose(ex.keys.len() - 1)) % ex.keys.len();
            let (p2, _) = authentic_etag(key(ex.keys[o].1), &ex.req, &ex.resp, id, &ex.nonce);
            base("re-signed with another registered key", w(&p2))
        }
        3 => {
            // re-signed with an unregistered key
            let mut o = t.choose(POOL);
            while ex.keys.iter().any(|(_, k)| *k == o) {
                o = (o + 1) % POOL;
            }
            let (p2, _) = authentic_etag(key(o), &ex.req, &ex.resp, id, &ex.nonce);
            base("re-signed with an unregistered key", w(&p2))
        }
        4 => base("hash and signature swapped", w(&format!("{}:{}", hex::encode(rh), hex::encode(&der)))),
        5 => {
            // proper prefix of the wrapped ETag
            let full = wrap_etag(&plain, ex.wrap);
            let n = t.choose(full.len());
            base(&format!("proper prefix (len {n})"), Some(full.as_bytes()[..n].to_vec()))
        }
        6 => {
            let n = 1 + t.choose(31);
            base("hash truncated by whole bytes", w(&etag_plain(&der, &rh[..32 - n])))
        }
        7 => {
            let mut h = rh.to_vec();
            h.extend(t.bytes(4).iter().chain([0u8].iter()));
            base("hash extended by whole bytes", w(&etag_plain(&der, &h)))
        }
        8 => base("colon removed", w(&plain.replace(':', ""))),
        9 => base("colon doubled", w(&plain.replace(':', "::"))),
        10 => base("etag missing", None),
        11 => base("signature empty", w(&format!(":{}", hex::encode(rh)))),
        12 => base("hash empty", w(&format!("{}:", hex::encode(&der)))),
        13 => recomposed("digest: response hash before request hash", [&h_resp[..], &h_req[..], cup.as_bytes()].concat()),
        14 => recomposed("digest: without response hash", [&h_req[..], cup.as_bytes()].concat()),
        15 => recomposed("digest: without request hash", [&h_resp[..], cup.as_bytes()].concat()),
        16 => recomposed("digest: without cup2key string", [&h_req[..], &h_resp[..]].concat()),
        17 => recomposed("digest: raw bodies instead of hashes", [&ex.req[..], &ex.resp[..], cup.as_bytes()].concat()),
        18 => recomposed("digest: upper-case nonce hex", [&h_req[..], &h_resp[..], format!("{}:{}", id, hex::encode_upper(ex.nonce)).as_bytes()].concat()),
        19 => recomposed("digest: raw nonce bytes", [&h_req[..], &h_resp[..], format!("{}:", id).as_bytes(), &ex.nonce[..]].concat()),
        20 => recomposed("digest: key id omitted", [&h_req[..], &h_resp[..], hex::encode(ex.nonce).as_bytes()].concat()),
        21 => recomposed("digest: cup2key first", [cup.as_bytes(), &h_req[..], &h_resp[..]].concat()),
        22 => {
            // transaction digest signed as prehash (single hash)
            let der = sign_prehash_der(k, &sha(&true_pre));
            base("digest signed as prehash (hashed once too few)", w(&etag_plain(&der, &rh)))
        }
        23 => {
            // signature over the pre-image itself hashed twice more
            let der = sign_der(k, &sha(&sha(&true_pre)));
            base("digest hashed once too many", w(&etag_plain(&der, &rh)))
        }
        24 => {
            // authentic signature for a different response body (tampered body)
            let mut other = ex.resp.clone();
            other.push(b' ');
            Some(("response body extended by one byte".into(), w(&plain), ex.req.clone(), other, id, ex.nonce))
        }
        31 => {
            // a well-formed DER signature whose scalars are degenerate (0, or not below the group order n), with the
            // correct request hash: must be refused like any other wrong signature, without a panic
            const N: &str = "ffffffff00000000ffffffffffffffffbce6faada7179e84f3b9cac2fc632551";
            fn der_int(h: &str) -> Vec<u8> {
                let mut b = hex::decode(h).unwrap();
                while b.len() > 1 && b[0] == 0 && b[1] < 0x80 {
                    b.remove(0);
                }
                if b[0] >= 0x80 {
                    b.insert(0, 0);
                }
                let mut out = vec![0x02, b.len() as u8];
                out.extend(b);
                out
            }
            let (r, sv) = *t.pick(&[("00", "00"), ("01", "00"), ("00", "01"), (N, "01"), ("01", N), (N, N)]);
            let mut body = der_int(r);
            body.extend(der_int(sv));
            let mut sig = vec![0x30, body.len() as u8];
            sig.extend(body);
            base("well-formed DER signature with a degenerate scalar (0 or >= n)", w(&format!("{}:{}", hex::encode(sig), hex::encode(rh))))
        }
        33 => {
            // one hex digit of the hash (or signature) text replaced by a character that lenient number parsers
            // swallow: a '+' or blank in place of a leading '0', 'O' for '0', upper-case 'X', '_' ...
            let on_hash = !t.chance(1, 4);
            let text: String = if on_hash { hex::encode(rh) } else { hex::encode(&der) };
            let zeros: Vec<usize> = text.bytes().enumerate().filter(|(_, b)| *b == b'0').map(|(i, _)| i).collect();
            let pos = if !zeros.is_empty() && !t.chance(1, 4) { zeros[t.choose(zeros.len())] } else { t.choose(text.len()) };
            let c = *t.pick(&['+', ' ', '-', 'O', 'o', '_', 'x', 'g', '\t']);
            let mut chars: Vec<char> = text.chars().collect();
            chars[pos] = c;
            let changed: String = chars.into_iter().collect();
            let etag = if on_hash { format!("{}:{}", hex::encode(&der), changed) } else { format!("{}:{}", changed, hex::encode(rh)) };
            base(&format!("a hex digit of the {} replaced by {c:?}", if on_hash { "request hash" } else { "signature" }), w(&etag))
        }
        32 => {
            // the authentic signature with a request hash that differs from the true one in several bytes at once
            // (swapped, reversed, the same mask on two or four bytes, all bytes changed): any aggregate comparison
            // (xor / sum of the deltas) can cancel where a bytewise one cannot
            let mut h = rh;
            let (i, j) = (t.choose(32), t.choose(32));
            let mask = 1 + t.choose(255) as u8;
            let what = match t.choose(6) {
                0 => {
                    h.swap(i, j);
                    "two bytes swapped"
                }
                1 => {
                    h[i] ^= mask;
                    h[j] ^= mask;
                    "one mask on two bytes"
                }
                2 => {
                    for k in 0..4 {
                        h[(i + 7 * k) % 32] ^= mask;
                    }
                    "one mask on four bytes"
                }
                3 => {
                    h.reverse();
                    "bytes reversed"
                }
                4 => {
                    h[i] = h[i].wrapping_add(mask);
                    h[j] = h[j].wrapping_sub(mask);
                    "plus and minus one delta"
                }
                _ => {
                    for b in h.iter_mut() {
                        *b ^= mask;
                    }
                    "one mask on every byte"
                }
            };
            if h == rh {
                return None;
            }
            base(&format!("authentic signature, request hash with {what}"), w(&format!("{}:{}", hex::encode(&der), hex::encode(h))))
        }
        30 => {
            // the authentic signature in another encoding: fixed-width r || s instead of DER
            let fixed = p256::ecdsa::Signature::from_der(&der).ok()?;
            let raw: Vec<u8> = fixed.as_ref().to_vec();
            base("authentic signature re-encoded as fixed-width r||s (not DER)", w(&format!("{}:{}", hex::encode(raw), hex::encode(rh))))
        }
        29 => {
            // a further ':'-separated component after the authentic hex(sig):hex(hash)
            let extra = match t.choose(4) {
                0 => String::new(),
                1 => "x".to_string(),
                2 => hex::encode(h_req),
                _ => "00".to_string(),
            };
            base("authentic etag with a further ':' component appended", w(&format!("{plain}:{extra}")))
        }
        27 => {
            // the anti-XSSI guard put in front of the response body (the signed digest covers the body as received)
            let mut other = b")]}'\n".to_vec();
            other.extend_from_slice(&ex.resp);
            Some(("anti-XSSI guard prepended to the response body".into(), w(&plain), ex.req.clone(), other, id, ex.nonce))
        }
        28 => {
            // ... or cut from a body that carries it
            let other = ex.resp.strip_prefix(b")]}'\n")?.to_vec();
            Some(("anti-XSSI guard cut from the response body".into(), w(&plain), ex.req.clone(), other, id, ex.nonce))
        }
        26 => {
            // an unregistered key id, with a signature that is perfectly valid for that id under a registered key
            let mut nid = t.u64_biased();
            while ex.keys.iter().any(|(i, _)| *i == nid) {
                nid = nid.wrapping_add(1);
            }
            let signer = ex.keys[t.choose(ex.keys.len())].1;
            let (p2, _) = authentic_etag(key(signer), &ex.req, &ex.resp, nid, &ex.nonce);
            Some(("unregistered key id signed by a registered key".into(), w(&p2), ex.req.clone(), ex.resp.clone(), nid, ex.nonce))
        }
        _ => {
            // request body retained by the client differs (tampered request): etag authentic for the original
            let mut other = ex.req.clone();
            other.push(b'\n');
            Some(("retained request body extended by one byte".into(), w(&plain), other, ex.resp.clone(), id, ex.nonce))
        }
    }
}

/// bit-flip mutation: field 0=sig,1=hash,2=nonce,3=req,4=resp
fn bitflip(ex: &Exchange, field: usize, bit: usize) -> Option<Mutated> {
    let (id, kidx) = ex.keys[ex.used];
    let (_, der) = authentic_etag(key(kidx), &ex.req, &ex.resp, id, &ex.nonce);
    let rh = sha(&ex.req);
    let w = |p: &str| Some(wrap_etag(p, ex.wrap).into_bytes());
    match field {
        0 => {
            let mut d = der.clone();
            if bit >= d.len() * 8 {
                return None;
            }
            flip(&mut d, bit);
            Some((format!("signature bit {bit} flipped"), w(&etag_plain(&d, &rh)), ex.req.clone(), ex.resp.clone(), id, ex.nonce))
        }
        1 => {
            let mut h = rh;
            flip(&mut h, bit % 256);
            Some((format!("hash bit {} flipped", bit % 256), w(&etag_plain(&der, &h)), ex.req.clone(), ex.resp.clone(), id, ex.nonce))
        }
        2 => {
            let mut n = ex.nonce;
            flip(&mut n, bit % 256);
            Some((format!("nonce bit {} flipped", bit % 256), w(&etag_plain(&der, &rh)), ex.req.clone(), ex.resp.clone(), id, n))
        }
        3 => {
            if ex.req.is_empty() {
                return None;
            }
            let mut r = ex.req.clone();
            let b = bit % (r.len() * 8);
            flip(&mut r, b);
            Some((format!("retained request body bit {b} flipped"), w(&etag_plain(&der, &rh)), r, ex.resp.clone(), id, ex.nonce))
        }
        _ => {
            if ex.resp.is_empty() {
                return None;
            }
            let mut r = ex.resp.clone();
            let b = bit % (r.len() * 8);
            flip(&mut r, b);
            Some((format!("response body bit {b} flipped"), w(&etag_plain(&der, &rh)), ex.req.clone(), r, id, ex.nonce))
        }
    }
}

struct Positive {
    der: Vec<u8>,
    ambiguous: bool,
}

/// The authentic exchange must verify (lower-case hex), through both entry points.
fn check_positive(ex: &Exchange, h: &StandardCupv2Handler) -> Result<Positive, Failure> {
    let (id, kidx) = ex.keys[ex.used];
    let (plain, der) = authentic_etag(key(kidx), &ex.req, &ex.resp, id, &ex.nonce);
    let cased = apply_hexcase(&plain, ex.hexcase);
    let ambiguous = has_upper_hex(&cased);
    let etag = wrap_etag(&cased, ex.wrap);
    let got = verify(h, Some(etag.as_bytes()), &ex.req, &ex.resp, id, &ex.nonce);
    match (&got, ambiguous) {
        (Ok(sig), _) => {
            if *sig != der {
                return Err(Failure::new("accepted-signature-changed", format!("accepted signature {} differs from the one sent {}", hex::encode(sig), hex::encode(&der)), ex_json(ex)));
            }
        }
        (Err(e), false) => {
            return Err(Failure::new("authentic-rejected", format!("authentic exchange rejected: {e} (etag {etag})"), ex_json(ex)));
        }
        (Err(_), true) => {}
    }
    // the stored-signature entry point
    let ds = DerSignature::from_bytes(&der).map_err(|e| Failure::new("own-der-unparseable", format!("{e:?}"), ex_json(ex)))?;
    if let Err(e) = h.verify_response_with_signature(&ds, &ex.req, &ex.resp, id, &Nonce::from(ex.nonce)) {
        return Err(Failure::new("authentic-rejected-with-signature", format!("verify_response_with_signature rejected an authentic exchange: {e:?}"), ex_json(ex)));
    }
    Ok(Positive { der, ambiguous })
}

fn check_mutation(ex: &Exchange, h: &StandardCupv2Handler, m: &Mutated, pos: &Positive) -> Result<(), Failure> {
    let (name, etag, req, resp, id, nonce) = m;
    let got = verify(h, etag.as_deref(), req, resp, *id, nonce);
    if let Ok(sig) = got {
        let class = name.split(" (").next().unwrap_or(name).split(" bit ").next().unwrap_or(name).to_string();
        return Err(Failure::new(
            format!("forgery-accepted:{class}"),
            format!("mutation '{name}' of an authentic exchange was accepted (returned signature {})", hex::encode(sig)),
            json!({"exchange": ex_json(ex), "mutation": name, "etag": etag.as_ref().map(|e| String::from_utf8_lossy(e).to_string())}),
        ));
    }
    // when the etag is untouched and only non-etag inputs change, the stored-signature entry point must reject too
    if etag.as_deref() == Some(wrap_etag(&etag_plain(&pos.der, &sha(&ex.req)), ex.wrap).as_bytes()) && *req == ex.req {
        let ds = DerSignature::from_bytes(&pos.der).unwrap();
        if h.verify_response_with_signature(&ds, req, resp, *id, &Nonce::from(*nonce)).is_ok() {
            return Err(Failure::new(
                "forgery-accepted-with-signature",
                format!("mutation '{name}' accepted by verify_response_with_signature"),
                json!({"exchange": ex_json(ex), "mutation": name}),
            ));
        }
    }
    Ok(())
}

/// text-level / arbitrary ETag differential
fn gen_header(ex: &Exchange, t: &mut Tape) -> (String, Option<Vec<u8>>) {
    let (id, kidx) = ex.keys[ex.used];
    let (plain, _) = authentic_etag(key(kidx), &ex.req, &ex.resp, id, &ex.nonce);
    let full = wrap_etag(&apply_hexcase(&plain, ex.hexcase), ex.wrap).into_bytes();
    match t.weighted(&[2, 3, 2, 2, 1, 1, 1, 3]) {
        0 => ("authentic".into(), Some(full)),
        7 => {
            // a short token inserted anywhere, the very end included
            let mut v = full.clone();
            let i = t.choose(v.len() + 1);
            const TOKS: [&str; 10] = [":", ":x", ":00", "\"", " ", "W/", "0", "ff", "::", ","];
            let tok = *t.pick(&TOKS);
            for (k, b) in tok.bytes().enumerate() {
                v.insert(i + k, b);
            }
            ("token inserted".into(), Some(v))
        }
        1 => {
            // replace one byte by an interesting character
            let mut v = full.clone();
            let i = t.choose(v.len());
            v[i] = *t.pick(&[b'"', b':', b'W', b'/', b' ', b'g', b'G', b'0', b'f', b'F', b'\t', b'~', b'!']);
            ("one byte replaced".into(), Some(v))
        }
        2 => {
            // flip the case bit of one character
            let mut v = full.clone();
            let i = t.choose(v.len());
            v[i] ^= 0x20;
            if !((32..127).contains(&v[i])) {
                v[i] = b'a';
            }
            ("case bit flipped".into(), Some(v))
        }
        3 => {
            // splice: delete or duplicate a range
            let mut v = full.clone();
            let i = t.choose(v.len());
            let n = t.choose(6);
            if t.flag() {
                let e = (i + n).min(v.len());
                v.drain(i..e);
            } else {
                let e = (i + n).min(v.len());
                let seg: Vec<u8> = v[i..e].to_vec();
                for (k, b) in seg.into_iter().enumerate() {
                    v.insert(i + k, b);
                }
            }
            ("splice".into(), Some(v))
        }
        4 => {
            // odd wrappers
            let p = String::from_utf8(full.clone()).unwrap();
            let s = match t.choose(8) {
                0 => format!("\"{p}"),
                1 => format!("{p}\""),
                2 => format!("W/{p}"),
                3 => format!("w/\"{p}\""),
                4 => format!("\"\"{p}\"\""),
                5 => "\"".to_string(),
                6 => "W/\"".to_string(),
                _ => "W/\"\"".to_string(),
            };
            ("odd wrapper".into(), Some(s.into_bytes()))
        }
        5 => {
            // short arbitrary visible text
            const A: &[char] = &['"', ':', 'W', '/', '0', 'a', 'f', 'F', ' ', '3'];
            ("arbitrary text".into(), Some(t.string_of(A, 12).into_bytes()))
        }
        _ => {
            // arbitrary bytes (may be unconstructible as a header value, or not visible ASCII)
            ("arbitrary bytes".into(), Some(t.bytes(24)))
        }
    }
}

fn check_differential(ex: &Exchange, h: &StandardCupv2Handler, pk: &PublicKeys, name: &str, header: Option<Vec<u8>>) -> Result<(bool, bool), Failure> {
    let (id, _) = ex.keys[ex.used];
    let keys: Vec<(u64, _)> = std::iter::once(&pk.latest).chain(&pk.historical).map(|k| (k.id, k.key)).collect();
    if let Some(hv) = &header {
        if http::HeaderValue::from_bytes(hv).is_err() {
            return Ok((false, false)); // cannot occur on the wire as a header value
        }
    }
    let want = reference_verify(header.as_deref(), &ex.req, &ex.resp, id, &ex.nonce, &keys);
    let got = verify(h, header.as_deref(), &ex.req, &ex.resp, id, &ex.nonce);
    let text = header.as_ref().map(|h| String::from_utf8_lossy(h).to_string());
    let upper = header
        .as_ref()
        .and_then(|h| std::str::from_utf8(h).ok())
        .map(|s| has_upper_hex(unwrap_etag(s)))
        .unwrap_or(false);
    let case = json!({"exchange": ex_json(ex), "header": text, "kind": name});
    match (&got, &want) {
        (Ok(sig), RefVerdict::Accept(w)) => {
            if sig != w {
                return Err(Failure::new("diff-signature-bytes", format!("accepted but returned {} instead of the transmitted {}", hex::encode(sig), hex::encode(w)), case));
            }
            Ok((true, upper))
        }
        (Err(_), RefVerdict::Reject(_)) => Ok((false, upper)),
        (Ok(_), RefVerdict::Reject(why)) => {
            if upper {
                return Ok((false, true));
            }
            Err(Failure::new(format!("diff-accepts:{why}"), format!("implementation accepts ETag {text:?} which the statement rejects ({why})"), case))
        }
        (Err(e), RefVerdict::Accept(_)) => {
            if upper {
                return Ok((false, true));
            }
            Err(Failure::new("diff-rejects-authentic", format!("implementation rejects ETag {text:?} ({e}) which carries a valid signature and hash"), case))
        }
    }
}

/// Half of the cases run with a tracing subscriber installed (the production configuration: with none, the arguments of
/// log statements are never evaluated and a panic inside one stays hidden).
pub fn case(t: &mut Tape, ctx: &CaseCtx) -> CaseResult {
    let log_on = {
        let mut probe = t.clone();
        let _ = probe.choose(3);
        gen_exchange(&mut probe).nonce[1] & 1 == 1
    };
    let mut r = crate::sim::logsub::with_logging(log_on, || case_inner(t, ctx));
    if let Ok(rep) = r.as_mut() {
        rep.classes.push(if log_on { "logging_on" } else { "logging_off" });
    }
    r
}

fn case_inner(t: &mut Tape, ctx: &CaseCtx) -> CaseResult {
    let mode = t.choose(3);
    let ex = gen_exchange(t);
    let (h, pk) = handler_for(&ex)?;
    let pos = check_positive(&ex, &h)?;
    let mut classes: Vec<&'static str> = vec![];
    classes.push(["wrap_plain", "wrap_quoted", "wrap_weak"][ex.wrap]);
    classes.push(if ex.used == 0 { "key_latest" } else { "key_historical" });
    let mut nontrivial = ex.used != 0 || ex.wrap != 0;
    let mut mutations: Vec<String> = vec![];
    let mut ambiguous = false;
    match mode {
        0 => {
            classes.push("mode_sampled_mutations");
            for _ in 0..12 {
                let m = if t.chance(1, 3) {
                    let field = t.choose(5);
                    bitflip(&ex, field, t.choose(72 * 8))
                } else {
                    let kind = t.choose(N_STRUCT);
                    structural(&ex, kind, t)
                };
                if let Some(m) = m {
                    check_mutation(&ex, &h, &m, &pos)?;
                    mutations.push(m.0);
                    nontrivial = true;
                }
            }
        }
        1 => {
            classes.push("mode_all_bitflips");
            let sig_bits = pos.der.len() * 8;
            let body_bits = |b: &Vec<u8>| if b.len() <= 64 { b.len() * 8 } else { 0 };
            let plan = [(0, sig_bits), (1, 256), (2, 256), (3, body_bits(&ex.req)), (4, body_bits(&ex.resp))];
            let mut n = 0;
            for (field, bits) in plan {
                for bit in 0..bits {
                    if let Some(m) = bitflip(&ex, field, bit) {
                        check_mutation(&ex, &h, &m, &pos)?;
                        n += 1;
                    }
                }
            }
            // large bodies: a sampled window
            for (field, body) in [(3usize, &ex.req), (4, &ex.resp)] {
                if body.len() > 64 {
                    let start = t.choose(body.len() - 8) * 8;
                    for bit in start..start + 64 {
                        if let Some(m) = bitflip(&ex, field, bit) {
                            check_mutation(&ex, &h, &m, &pos)?;
                            n += 1;
                        }
                    }
                }
            }
            // and every structural mutation once
            for kind in 0..N_STRUCT {
                if let Some(m) = structural(&ex, kind, t) {
                    check_mutation(&ex, &h, &m, &pos)?;
                    n += 1;
                }
            }
            mutations.push(format!("{n} mutations: all single-bit flips of signature/hash/nonce/small bodies + all {N_STRUCT} structural kinds"));
            nontrivial = true;
        }
        _ => {
            classes.push("mode_differential");
            for _ in 0..8 {
                let (name, hv) = gen_header(&ex, t);
                let (accepted, upper) = check_differential(&ex, &h, &pk, &name, hv)?;
                if upper {
                    ambiguous = true;
                }
                if accepted {
                    classes.push("diff_accepted");
                }
                mutations.push(name);
            }
            nontrivial = true;
        }
    }
    if pos.ambiguous {
        classes.push("upper_or_mixed_hex");
    }
    // `ambiguous` here only marks that some sub-check was left open; the case as a whole still counts
    let _ = ambiguous;
    Ok(CaseReport {
        key: hash_of(&(&ex.req, &ex.resp, ex.nonce, &ex.keys, ex.used, ex.wrap, ex.hexcase, &mutations)),
        nontrivial,
        classes,
        sample: ctx.want_sample.then(|| json!({"exchange": ex_json(&ex), "mode": mode, "checked": mutations})),
        ambiguous: false,
    })
}

pub fn run(mut run: Run) -> i32 {
    run.replay_committed(&case);
    run.random("all bit flips + all structural mutations", &[Tape::encode_choice(1, 3)], run.n(96, 3000), 80, &case);
    run.random("sampled mutations", &[Tape::encode_choice(0, 3)], run.n(12_000, 300_000), 120, &case);
    run.random("etag text differential", &[Tape::encode_choice(2, 3)], run.n(12_000, 300_000), 120, &case);
    run.finish(
        RULE,
        500,
        &[
            "sha2, p256/ecdsa (sign, verify, DER) and hex are trusted primitives; the digest layout and ETag syntax are re-stated independently",
            "key ids within a key set are distinct",
            "(r, n-s) malleability is not tested: it is a valid signature under the key",
            "verify_response is called with public_key_id == metadata.public_key_id, as the state machine does",
        ],
    )
}

//! C18 — Update-attempt bookkeeping spans attempts and reboots.

use super::c05::offer_doc;
use super::flow::*;
use crate::engine::*;
use crate::sim::{types::*};
use crate::tape::Tape;
use serde_json::json;
use std::collections::BTreeMap;
use std::sync::atomic::{AtomicU64, Ordering};
use std::time::Duration;

pub const RULE: &str = "a case = 2-3 lives (restarts) of 1-2 install attempts each: plan ids from a pool of 3, per-app installer \
results over {Installed, Deferred, Failed}, which app is the system app, manifest version present or not, configured OS \
version equal / unequal to the target, wall clock set at each restart (finish < start, finish in the future, far later), \
clock stepping between interactions; the first life is additionally re-run with a crash at every environment interaction. \
Oracle: a model over committed storage + metrics with exact simulated-clock arithmetic: first-seen time of a plan id \
survives repeats and restarts and is reset only by a different id (committed keys and SuccessfulUpdateFromFirstSeen); \
AttemptsToSuccessfulInstall.count = consecutive failed installs + 1, reported iff some app failed or installed, +1 per \
failure, cleared on success (committed with the check's result); when reboot_needed / perform_reboot is reached after a \
no-failure install, COMMITTED storage already holds that install's finish time and the system app's target version; the \
first machine started on that version reports WaitedForRebootDuration = finish -> its own start exactly once and clears \
both keys; on another version or with inconsistent clocks nothing is reported and nothing cleared. non-trivial = the same \
plan id attempted twice across a restart, or >= 2 apps with a non-first system app; distinct by (script, lives) hash.";

pub static CRASH_RUNS: AtomicU64 = AtomicU64::new(0);

#[derive(Clone, Debug, Default, PartialEq)]
struct Rec {
    plan: Option<String>,
    /// stored first-seen time in µs
    first_seen_us: Option<i64>,
    attempts: i64,
    finish_us: Option<i64>,
    target: Option<String>,
}

fn decode(c: &BTreeMap<String, SVal>) -> Rec {
    let s = |k: &str| match c.get(k) {
        Some(SVal::S(v)) => Some(v.clone()),
        _ => None,
    };
    let i = |k: &str| match c.get(k) {
        Some(SVal::I(v)) => Some(*v),
        _ => None,
    };
    Rec { plan: s("install_plan_id"), first_seen_us: i("update_first_seen_time"), attempts: i("consecutive_failed_install_attempts").unwrap_or(0), finish_us: i("update_finish_time"), target: s("target_version") }
}

fn us(ns: i128) -> i64 {
    (ns / 1000) as i64
}

/// the clock as the library last read it before the interaction logged at `i`: the stamp of the preceding entry, skipping
/// the marker that this very interaction's clock step logs when it carries a wall-clock correction
fn pre_stamp(h: &Hist, i: usize) -> (i128, i128) {
    let mut j = i - 1;
    while j > 0 && matches!(h.log[j], Op::Clock { .. }) {
        j -= 1;
    }
    h.stamps[j]
}

pub fn check_history(h: &Hist) -> Result<(bool, Vec<&'static str>), Failure> {
    let log = &h.log;
    let evals = evaluate(h);
    let mut classes: Vec<&'static str> = vec![];
    let mut nontrivial = false;
    let sys_id = h.script.apps[h.script.system_app.min(h.script.apps.len() - 1)].id.clone();
    if h.script.apps.len() >= 2 && h.script.system_app != 0 {
        classes.push("non_first_system_app");
    }
    let mut m = Rec::default();
    // reporting of the previous boot's reboot wait
    let mut pending_report = false;
    // compute_next_update_time is also asked inside the reboot wait; only the one at the top of the run loop follows a report attempt
    let mut in_reboot_wait = false;
    // the finish time this state machine found at start and still owes a report for (a later install in the same life
    // writes a record of its own, which is the next boot's to report)
    let mut pending_finish: Option<i64> = None;
    let mut start_mono: i128 = 0;
    let mut reported_this_life = 0;
    let mut plans_seen_in_earlier_lives: Vec<String> = vec![];
    let mut plans_this_life: Vec<String> = vec![];
    // per install attempt
    let mut start_ns: Option<i128> = None; // update_start_time
    let mut first_seen_exact: Option<i128> = None; // what record_update_first_seen_time returned (ns)
    let mut cur_plan: Option<String> = None;
    let mut i = 0;
    while i < log.len() {
        let around = Some((i.saturating_sub(14), (i + 4).min(log.len())));
        match &log[i] {
            Op::Build { oneshot, .. } => {
                m = decode(&committed_at(log, i, &h.script));
                plans_seen_in_earlier_lives.extend(plans_this_life.drain(..));
                pending_report = !*oneshot && m.finish_us.is_some() && m.target.as_deref() == Some(h.script.os_version.as_str());
                pending_finish = if pending_report { m.finish_us } else { None };
                in_reboot_wait = false;
                // an invalid app set ends run() before anything else
                start_mono = h.stamps[i].1;
                reported_this_life = 0;
                if m.finish_us.is_some() {
                    classes.push(if pending_report { "restart_on_target_version" } else { "restart_on_other_version" });
                }
            }
            Op::Took(EventView::State(StateView::WaitingForReboot)) => in_reboot_wait = true,
            Op::Took(EventView::State(StateView::Idle)) => in_reboot_wait = false,
            Op::NextTime { .. } => {
                // loop top: if a report is pending and the clocks are consistent it must have been made by now
                if pending_report && !in_reboot_wait && pre_stamp(h, i).1 < start_mono {
                    classes.push("monotonic_clock_behind_start_while_report_pending");
                }
                if pending_report && !in_reboot_wait && pre_stamp(h, i).1 >= start_mono {
                    let now_wall = pre_stamp(h, i).0;
                    let now_mono = pre_stamp(h, i).1;
                    let f = pending_finish.unwrap() as i128 * 1000;
                    let expect = if now_wall >= f && (now_wall - f) >= (now_mono - start_mono) { Some(now_wall - f - (now_mono - start_mono)) } else { None };
                    if let Some(d) = expect {
                        return Err(failure(
                            "waited-for-reboot-not-reported",
                            format!("a state machine started on the target version {:?} with finish time {} µs and consistent clocks did not report the waited-for-reboot duration ({} ns)", m.target, pending_finish.unwrap(), d),
                            h,
                            around,
                        ));
                    } else {
                        classes.push("inconsistent_clocks_no_report");
                    }
                }
            }
            Op::Metric(MetricView::WaitedForReboot(d)) => {
                // clock as the library read it: before this metric's own interaction
                let (now_wall, now_mono) = pre_stamp(h, i);
                if !pending_report {
                    return Err(failure(
                        "waited-for-reboot-unexpected",
                        format!("WaitedForRebootDuration({d:?}) reported although no reboot record for this version is pending (record {m:?}, os version {:?}, reports so far in this life: {reported_this_life})", h.script.os_version),
                        h,
                        around,
                    ));
                }
                let f = pending_finish.unwrap() as i128 * 1000;
                let want = now_wall - f - (now_mono - start_mono);
                if now_mono < start_mono {
                    return Err(failure(
                        "waited-for-reboot-with-inconsistent-clocks",
                        format!("WaitedForRebootDuration({d:?}) reported although the monotonic clock reads {} ns less than at the start of this state machine: with inconsistent clocks nothing is reported", start_mono - now_mono),
                        h,
                        around,
                    ));
                }
                if now_wall < f || want < 0 || d.as_nanos() as i128 != want {
                    return Err(failure(
                        "waited-for-reboot-duration",
                        format!("WaitedForRebootDuration({d:?}); finish -> start of this state machine is {want} ns (finish {f}, now {now_wall}, since start {} ns)", now_mono - start_mono),
                        h,
                        around,
                    ));
                }
                pending_report = false;
                reported_this_life += 1;
                classes.push("waited_for_reboot_reported");
                let newer_record = m.finish_us != pending_finish;
                pending_finish = None;
                if !newer_record {
                    m.finish_us = None;
                    m.target = None;
                } else {
                    classes.push("late_report_with_newer_record");
                    nontrivial = true;
                }
                // ... and clears the record it reported: the next commit shows neither key - unless an install finished
                // in this life meanwhile: that record belongs to the next boot and must survive the late report
                if let Some(k) = log[i..].iter().position(|o| matches!(o, Op::Committed { .. } | Op::NextTime { .. } | Op::MachineDropped | Op::Crash { .. })) {
                    if matches!(log[i + k], Op::Committed { .. }) {
                        let c = decode(&committed_at(log, i + k + 1, &h.script));
                        if !newer_record && (c.finish_us.is_some() || c.target.is_some()) {
                            return Err(failure("reboot-record-not-cleared", format!("after reporting, the reboot record is still stored: {c:?}"), h, around));
                        }
                        if newer_record && (c.finish_us != m.finish_us || c.target != m.target) {
                            return Err(failure(
                                "newer-reboot-record-cleared-by-late-report",
                                format!("the report of the previous boot's reboot wait (delayed by inconsistent clocks) removed the finish record of an install made since: storage now holds {:?} / {:?}, the record of that install is {:?} / {:?}; the state machine started on its target version will report nothing", c.finish_us, c.target, m.finish_us, m.target),
                                h,
                                around,
                            ));
                        }
                    } else if matches!(log[i + k], Op::NextTime { .. }) && !newer_record {
                        return Err(failure("reboot-record-not-cleared", "after reporting, the record was not cleared and committed before continuing".to_string(), h, around));
                    }
                }
            }
            Op::Storage { op: SOp::GetString, key, .. } if key == "install_plan_id" => {
                // start of an install attempt: update_start_time was read just before
                start_ns = Some(h.stamps[i].0);
            }
            Op::Install { plan_id } => {
                cur_plan = Some(plan_id.clone());
                plans_this_life.push(plan_id.clone());
                if plans_seen_in_earlier_lives.contains(plan_id) {
                    nontrivial = true;
                    classes.push("same_plan_across_restart");
                }
                let t = start_ns.unwrap_or(h.stamps[i].0);
                if m.plan.as_deref() == Some(plan_id.as_str()) {
                    classes.push("plan_repeated");
                    first_seen_exact = Some(m.first_seen_us.map(|u| u as i128 * 1000).unwrap_or(t));
                } else {
                    classes.push("plan_new");
                    m.plan = Some(plan_id.clone());
                    m.first_seen_us = Some(us(t));
                    first_seen_exact = Some(t);
                }
                // committed by now (the record is committed before the install starts)
                let c = decode(&committed_at(log, i, &h.script));
                if c.plan != m.plan || c.first_seen_us != m.first_seen_us {
                    return Err(failure(
                        "first-seen-record",
                        format!("when the install of {plan_id} starts, committed storage holds plan {:?} first seen {:?}; it must hold {:?} / {:?} (first-seen survives repeats, is reset only by a different plan)", c.plan, c.first_seen_us, m.plan, m.first_seen_us),
                        h,
                        around,
                    ));
                }
            }
            Op::InstallDone { results } => {
                let finish = h.stamps[i].0;
                let no_fail = results.iter().all(|r| *r < 2);
                let any_installed = results.iter().any(|r| *r == 0);
                let any_failed = results.iter().any(|r| *r >= 2);
                let Some(ev) = evals.iter().find(|e| e.seg.start <= i && i < e.seg.end) else {
                    i += 1;
                    continue;
                };
                let seg_end = ev.seg.end;
                let metrics: Vec<(usize, &MetricView)> = log[i..seg_end].iter().enumerate().filter_map(|(k, o)| if let Op::Metric(mv) = o { Some((i + k, mv)) } else { None }).collect();
                let start = start_ns.unwrap_or(finish);
                // duration metric
                let want_dur = (finish >= start).then(|| Duration::from_nanos((finish - start) as u64));
                let got_dur = metrics.iter().find_map(|(_, mv)| match mv {
                    MetricView::SuccessfulUpdateDuration(d) => Some((true, *d)),
                    MetricView::FailedUpdateDuration(d) => Some((false, *d)),
                    _ => None,
                });
                // only judged once the flow has moved past the metric (the per-app report request follows it)
                if log[i..seg_end].iter().any(|o| matches!(o, Op::Http { .. })) {
                    match (want_dur, got_dur) {
                        (Some(w), Some((ok, g))) if ok == no_fail && g == w => {}
                        (None, None) => {}
                        other => return Err(failure("update-duration-metric", format!("update duration metric {:?}, expected success={no_fail} duration={want_dur:?}", other.1), h, around)),
                    }
                }
                // outcome bookkeeping
                let reported: Vec<(u64, bool)> = metrics.iter().filter_map(|(_, mv)| if let MetricView::AttemptsToSuccessfulInstall { count, successful } = mv { Some((*count, *successful)) } else { None }).collect();
                let complete = ev.seg.result_at.is_some();
                if complete {
                    let want: Vec<(u64, bool)> = if any_failed {
                        vec![((m.attempts + 1) as u64, false)]
                    } else if any_installed {
                        vec![((m.attempts + 1) as u64, true)]
                    } else {
                        vec![]
                    };
                    if reported != want {
                        return Err(failure(
                            "attempts-to-successful-install",
                            format!("AttemptsToSuccessfulInstall reported {reported:?}; with {} consecutive failed installs before and results {results:?} it must be {want:?}", m.attempts),
                            h,
                            around,
                        ));
                    }
                    if any_failed {
                        m.attempts += 1;
                        classes.push("install_failed");
                    } else if any_installed {
                        m.attempts = 0;
                        classes.push("install_succeeded");
                    } else {
                        classes.push("install_all_deferred");
                    }
                }
                if no_fail {
                    // first-seen metric
                    let fs = first_seen_exact.unwrap_or(finish);
                    let want_fs = (finish >= fs).then(|| Duration::from_nanos((finish - fs) as u64));
                    let got_fs = metrics.iter().find_map(|(_, mv)| if let MetricView::SuccessfulUpdateFromFirstSeen(d) = mv { Some(*d) } else { None });
                    // the metric is reported before reboot_needed is asked
                    let reached = log[i..seg_end].iter().any(|o| matches!(o, Op::RebootNeeded { .. }));
                    if reached && got_fs != want_fs {
                        return Err(failure(
                            "from-first-seen-metric",
                            format!("SuccessfulUpdateFromFirstSeen {got_fs:?}; the plan {cur_plan:?} was first seen at {fs} ns and finished at {finish} ns: expected {want_fs:?}"),
                            h,
                            around,
                        ));
                    }
                    // durable before any reboot is attempted
                    let offered_sys = ev.expect.doc.as_ref().and_then(|d| d.apps.iter().find(|a| a.id == sys_id && matches!(&a.uc, Some(u) if u.status == "ok")).cloned());
                    let want_target = match &offered_sys {
                        Some(a) => Some(a.uc.as_ref().and_then(|u| u.manifest.as_ref()).map(|mm| mm.version.clone()).unwrap_or_else(|| "UNKNOWN".to_string())),
                        None => m.target.clone(),
                    };
                    // a system-app update whose manifest names no version has no target version to record: the library
                    // writes a placeholder; any value that cannot be mistaken for a real version (or none) is accepted,
                    // a left-over real version of an earlier install is not
                    let versionless = matches!(&offered_sys, Some(a) if a.uc.as_ref().and_then(|u| u.manifest.as_ref()).is_none());
                    if let Some(k) = log[i..seg_end].iter().position(|o| matches!(o, Op::RebootNeeded { .. })) {
                        let c = decode(&committed_at(log, i + k, &h.script));
                        let target_ok = if versionless { c.target.as_ref().map(|v| v.parse::<omaha_client::version::Version>().is_err()).unwrap_or(true) } else { c.target == want_target };
                        let want_target = if versionless && target_ok { c.target.clone() } else { want_target };
                        if c.finish_us != Some(us(finish)) || !target_ok {
                            return Err(failure(
                                "finish-record-not-durable-before-reboot",
                                format!("when the reboot question is reached, committed storage holds finish time {:?} / target version {:?}; it must already hold {:?} / {} (system app {sys_id:?})", c.finish_us, c.target, Some(us(finish)), if versionless { "no real version: the manifest names none, a left-over version of an earlier install would be reported against the wrong update".to_string() } else { format!("{want_target:?}") }),
                                h,
                                around,
                            ));
                        }
                        m.finish_us = Some(us(finish));
                        m.target = want_target;
                        // (this fresh record is the next boot's to report; a report still owed for the record found at
                        // start stays owed)
                        classes.push("finish_recorded");
                    }
                }
            }
            Op::Reboot { .. } => {
                let c = decode(&committed_at(log, i, &h.script));
                if c.finish_us.is_none() {
                    return Err(failure("reboot-without-durable-finish-time", "perform_reboot reached although no finish time is committed".to_string(), h, around));
                }
                classes.push("reboot");
            }
            Op::Committed { .. } => {
                // the commit that ends a check carries the attempt counter
                let ends_check = evals.iter().any(|e| e.seg.result_at.map(|r| r < i && !log[r + 1..i].iter().any(|o| matches!(o, Op::Committed { .. } | Op::Build { .. } | Op::MachineDropped | Op::Crash { .. }))).unwrap_or(false));
                if ends_check {
                    let c = decode(&committed_at(log, i + 1, &h.script));
                    if c.attempts != m.attempts {
                        return Err(failure("attempt-counter-committed", format!("the commit ending the check stores {} consecutive failed install attempts; the model says {}", c.attempts, m.attempts), h, around));
                    }
                }
            }
            _ => {}
        }
        i += 1;
    }
    if h.script.apps.len() >= 2 && h.script.system_app != 0 && classes.contains(&"finish_recorded") {
        nontrivial = true;
    }
    classes.sort();
    classes.dedup();
    Ok((nontrivial, classes))
}

pub fn gen_case(t: &mut Tape) -> (Script, Vec<LifePlan>) {
    let mut s = Script::default();
    let napps = 1 + t.choose(3);
    s.apps = (0..napps).map(|i| AppSpec { id: format!("app{i}"), version: vec![1, i as u32], ..Default::default() }).collect();
    s.system_app = t.choose(napps);
    let target = (*t.pick(&["2.0.0.0", "3.1", "UNKNOWN"])).to_string();
    s.os_version = if t.chance(2, 3) { target.clone() } else { "1.0".into() };
    let nl = 2 + t.choose(2);
    let mut lives = vec![];
    let mut wall = s.start_wall_ns;
    for l in 0..nl {
        let mut lp = LifePlan::new(false, 1 + t.choose(3), None);
        if l > 0 {
            // time between boots: later, slightly later, or the clock went back
            wall += match t.choose(5) {
                0 => 1_000_000,
                1 => 86_400_000_000_000,
                2 => -(3_600_000_000_000i128),
                3 => 5,
                _ => 30_000_000_000,
            };
            lp.wall_at_start = Some(wall);
        }
        lives.push(lp);
    }
    // every check offers an update to a generated subset of the apps
    let nchecks: usize = lives.iter().map(|l| l.checks).sum();
    for _ in 0..nchecks {
        let mut doc = offer_doc(&s.apps);
        // subset / order / manifest version
        if t.chance(1, 3) && doc.apps.len() > 1 {
            let k = t.choose(doc.apps.len());
            doc.apps[k].uc.as_mut().unwrap().status = "noupdate".into();
            doc.apps[k].uc.as_mut().unwrap().manifest = None;
        }
        if t.chance(1, 3) {
            doc.apps.reverse();
        }
        for a in doc.apps.iter_mut() {
            if let Some(u) = a.uc.as_mut() {
                if let Some(mm) = u.manifest.as_mut() {
                    mm.version = if a.id == s.apps[s.system_app].id { target.clone() } else { "9.9".into() };
                }
                if t.chance(1, 6) {
                    u.manifest = None;
                }
            }
        }
        s.http.push(HttpSpec::Resp(RespSpec { status: 200, retry_after: vec![], retry_after_name_case: 0, body: BodySpec::Doc(doc, 0), auth: Auth::Authentic, prefix: false }));
        // event reports of the attempt: download started, per-app, update complete
        for _ in 0..3 {
            s.http.push(HttpSpec::Resp(RespSpec { status: 200, retry_after: vec![], retry_after_name_case: 0, body: BodySpec::DefaultNoUpdate, auth: Auth::Authentic, prefix: false }));
        }
        s.plans.push((true, t.choose(3) as u8));
        s.installs.push(InstallSpec { results: (0..3).map(|_| t.weighted(&[5, 1, 2]) as u8).collect(), progress: vec![], concurrent: 0 });
        s.reboot_needed.push(!t.chance(1, 4));
        s.reboot_allowed.push((!t.chance(1, 4), true));
    }
    // the wall clock may be corrected while a state machine runs (not yet synchronised at boot, stepped later)
    let start_wall = s.start_wall_ns;
    s.clock = t.vec_of(40, |t| ClockStep {
        advance_ns: *t.pick(&[1_000_003u64, 1, 999, 1_000_000_000, 7_000_000_000]),
        wall_jump: if t.chance(1, 5) { Some(start_wall + *t.pick(&[2 * 86_400_000_000_000i128, 2 * 86_400_000_000_000 + 3_600_000_000_000, 3 * 86_400_000_000_000, -7_200_000_000_000, 3_000_000_000])) } else { None },
    });
    // ... and the monotonic reading of the embedder's TimeSource may step back once (clocks inconsistent in the third way)
    if t.chance(1, 3) {
        s.mono_back = Some((t.choose(4), t.choose(6), 1 + t.choose(2_000_000_000) as u64 * 15));
    }
    (s, lives)
}

pub fn case(t: &mut Tape, ctx: &CaseCtx) -> CaseResult {
    let (script, lives) = gen_case(t);
    let crash_cap = 40 + t.choose(200);
    let h = run_history(script.clone(), &lives);
    let (nontrivial, mut classes) = check_history(&h)?;
    // crash at every interaction of the first life
    let first_life_interactions = {
        let h1 = run_history(script.clone(), &lives[..1]);
        h1.interactions
    };
    for k in 1..=first_life_interactions.min(crash_cap) {
        let mut ls = lives.clone();
        ls[0].crash_at = Some(k);
        let h2 = run_history(script.clone(), &ls);
        CRASH_RUNS.fetch_add(1, Ordering::Relaxed);
        if let Err(mut f) = check_history(&h2) {
            f.message = format!("[first life crashed at interaction {k}] {}", f.message);
            return Err(f);
        }
    }
    classes.push("crash_points_enumerated");
    Ok(CaseReport {
        key: hash_of(&format!("{script:?}{lives:?}")),
        nontrivial,
        classes,
        sample: ctx.want_sample.then(|| {
            json!({"lives": format!("{lives:?}"), "system_app": script.system_app, "os_version": script.os_version, "plans": script.plans, "installs": script_json(&script)["installs"],
                "metrics": h.log.iter().filter_map(|o| match o { Op::Metric(m @ (MetricView::WaitedForReboot(_) | MetricView::AttemptsToSuccessfulInstall { .. } | MetricView::SuccessfulUpdateFromFirstSeen(_))) => Some(format!("{m:?}")), Op::Build { life, .. } => Some(format!("build life {life}")), _ => None }).collect::<Vec<_>>()})
        }),
        ambiguous: false,
    })
}

pub fn run(mut run: Run) -> i32 {
    run.replay_committed(&case);
    run.shrink_ms = 20_000;
    run.random("install histories x restarts x crash points of the first life", &[], run.n(8_000, 100_000), 300, &case);
    run.note("crash_runs", json!(CRASH_RUNS.load(Ordering::Relaxed)));
    run.finish(
        RULE,
        100,
        &[
            "durations are compared exactly: the simulated clock only moves at environment interactions",
            "if the system app is not among the offered apps no target version is written (an older one stays)",
            "crash points are enumerated for the first life; later lives run to completion",
        ],
    )
}

//! C05 — Policy consent gates every network, install and reboot action.

use super::flow::*;
use crate::engine::*;
use crate::respgen::{XApp, XMan, XResp, XUc};
use crate::sim::{gen::*, types::*};
use crate::tape::Tape;
use serde_json::json;

pub const RULE: &str = "mode 0 enumerates EXHAUSTIVELY check decision (5) x request parameters (16) x install decision (3) x \
reboot needed (2) x first reboot answer (2) on a two-app script that offers an update; mode 1 = random histories over all \
policy answer sequences (negative decisions followed by positive ones, deferral / denial, reboot needed / allowed \
sequences), request parameters and app sets including invalid ones (empty id, version 0 / 0.0.0.0); mode 2 = the same \
invariants over scheduled runs with control requests (C11 driver). Oracle: history invariants on the call log of the \
harness policy / installer / HTTP implementations (see module docs). non-trivial = a negative decision followed by a later \
positive one, or non-default parameters with >= 1 event report, or an invalid app set, or a refused reboot; distinct by script hash.";

pub fn offer_doc(apps: &[AppSpec]) -> XResp {
    XResp {
        protocol: "3.0".into(),
        server: None,
        daystart: None,
        apps: apps
            .iter()
            .map(|a| XApp {
                id: a.id.clone(),
                status: "ok".into(),
                cohort: [None, None, None],
                ping: None,
                uc: Some(XUc {
                    status: "ok".into(),
                    info: None,
                    urls: Some(vec!["http://pkg.test/".into()]),
                    manifest: Some(XMan { version: "2.0.0.0".into(), actions: vec![], packages: vec![] }),
                    extra: vec![],
                }),
                events: None,
                extra: vec![],
            })
            .collect(),
        junk: vec![],
    }
}

/// The invariants, over any op log (eager or scheduled).
pub fn check_log(h: &Hist) -> Result<(bool, Vec<&'static str>), Failure> {
    let log = &h.log;
    let mut nontrivial = false;
    let mut classes: Vec<&'static str> = vec![];
    let segs = crate::model::checks(log);
    let lives = crate::model::lives(log);
    for l in &lives {
        // invalid app set: the machine never starts at all (continuous operation)
        let invalid = h.script.apps.iter().any(|a| a.id.is_empty() || a.version.iter().all(|c| *c == 0)) || (h.script.spoil_app_after_start.is_some() && !l.oneshot);
        if h.script.spoil_app_after_start.is_some() && !l.oneshot {
            classes.push("app_set_invalidated_between_start_and_first_poll");
        }
        if invalid && !l.oneshot {
            nontrivial = true;
            classes.push("invalid_app_set");
            for (i, op) in log[l.start..l.end].iter().enumerate() {
                match op {
                    Op::Build { .. } | Op::Storage { op: SOp::GetString | SOp::GetInt | SOp::GetBool, .. } | Op::StreamEnd | Op::MachineDropped => {}
                    other => {
                        return Err(failure(
                            "started-with-invalid-app-set",
                            format!("with an invalid app set (empty id or version 0) the state machine must not start at all, but it did: {}", format!("{other:?}").chars().take(200).collect::<String>()),
                            h,
                            Some((l.start, (l.start + i + 3).min(log.len()))),
                        ))
                    }
                }
            }
            continue;
        }
        if l.oneshot {
            // one-shot: by contract one unconditional check; only the install-consent clause applies (below)
        }
        // walk the life
        let mut last_decision: Option<(usize, CheckDecisionSpec)> = None;
        let mut in_reboot_wait = false;
        let mut last_reboot_answer: Option<bool> = None;
        let mut reboot_needed_yes = false;
        let mut last_install_clean: Option<bool> = None;
        let mut saw_negative = false;
        for i in l.start..l.end {
            let around = Some((i.saturating_sub(12), (i + 3).min(log.len())));
            match &log[i] {
                Op::CheckAllowed { answer, .. } => {
                    if answer.positive() && saw_negative {
                        nontrivial = true;
                        classes.push("negative_then_positive");
                    }
                    if !answer.positive() {
                        saw_negative = true;
                        classes.push("negative_decision");
                    }
                    last_decision = Some((i, *answer));
                    in_reboot_wait = false;
                    last_reboot_answer = None;
                    reboot_needed_yes = false;
                    last_install_clean = None;
                }
                Op::Took(EventView::State(StateView::WaitingForReboot)) => in_reboot_wait = true,
                Op::Took(EventView::State(StateView::Idle)) => {
                    in_reboot_wait = false;
                }
                Op::Http { view, n, .. } => {
                    if l.oneshot {
                        continue;
                    }
                    let Some((di, d)) = last_decision else {
                        return Err(failure("request-without-consent", format!("request #{n} was sent although update_check_allowed was never asked"), h, around));
                    };
                    if !d.positive() {
                        return Err(failure("request-after-negative-decision", format!("request #{n} was sent although the most recent check decision (log #{di}) was negative ({})", d.kind), h, around));
                    }
                    let seg = segs.iter().find(|s| s.allowed == Some(di));
                    let inside = seg.map(|s| i >= s.start && i < s.end).unwrap_or(false);
                    let Some(v) = view else { continue };
                    if inside {
                        // parameters of that very decision on every request of the check
                        let want_src = if d.source_on_demand == Some(true) { "ondemand" } else { "scheduledtask" };
                        let want_int = if d.source_on_demand == Some(true) { "fg" } else { "bg" };
                        if v.install_source != want_src || v.interactivity.as_deref() != Some(want_int) {
                            return Err(failure(
                                "request-params-source",
                                format!("{:?} request #{n} carries installsource={:?} interactivity={:?}; the policy returned source on_demand={:?}", v.kind, v.install_source, v.interactivity, d.source_on_demand),
                                h,
                                around,
                            ));
                        }
                        for a in &v.apps {
                            if let Some((dis, same)) = a.updatecheck {
                                if dis != d.disable_updates || same != d.same_version {
                                    return Err(failure(
                                        "request-params-flags",
                                        format!("update check for {} carries updatedisabled={dis} sameversionupdate={same}; the policy returned {}/{}", a.id, d.disable_updates, d.same_version),
                                        h,
                                        around,
                                    ));
                                }
                            }
                        }
                        if v.kind == ReqKind::Events && (d.source_on_demand == Some(true) || d.disable_updates || d.same_version) {
                            nontrivial = true;
                            classes.push("non_default_params_with_report");
                        }
                    } else if !(in_reboot_wait && v.kind == ReqKind::Ping) {
                        return Err(failure("request-outside-allowed-check", format!("{:?} request #{n} was sent outside the check the policy allowed (and it is not a ping of that check's reboot wait)", v.kind), h, around));
                    }
                }
                Op::Install { plan_id } => {
                    // approved plan, same check
                    let lo = last_decision.map(|(di, _)| di).unwrap_or(l.start);
                    let approved = log[lo..i].iter().rev().find_map(|o| if let Op::CanStart { plan_id: p, answer } = o { Some((p.clone(), *answer)) } else { None });
                    match approved {
                        Some((p, 0)) if &p == plan_id => {}
                        other => return Err(failure("install-without-approval", format!("perform_install({plan_id}) without update_can_start({plan_id}) = Ok in this check (last decision: {other:?})"), h, around)),
                    }
                }
                Op::InstallDone { results } => last_install_clean = Some(results.iter().all(|r| *r < 2)),
                Op::RebootNeeded { answer, .. } => reboot_needed_yes = *answer,
                Op::RebootAllowed { answer, .. } => {
                    last_reboot_answer = Some(*answer);
                    if !*answer {
                        nontrivial = true;
                        classes.push("reboot_refused");
                    }
                }
                Op::Reboot { .. } => {
                    if last_install_clean != Some(true) || !reboot_needed_yes || last_reboot_answer != Some(true) {
                        return Err(failure(
                            "reboot-without-consent",
                            format!("perform_reboot with: install without failed app = {last_install_clean:?}, reboot_needed = {reboot_needed_yes}, most recent reboot_allowed = {last_reboot_answer:?}"),
                            h,
                            around,
                        ));
                    }
                    classes.push("rebooted");
                }
                _ => {}
            }
        }
    }
    // deferral / denial => no install in that check (also implied by the approval rule; stated separately for the message)
    for s in &segs {
        let cs = log[s.start..s.end].iter().find_map(|o| if let Op::CanStart { answer, .. } = o { Some(*answer) } else { None });
        if matches!(cs, Some(1) | Some(2)) {
            classes.push("install_refused");
            if log[s.start..s.end].iter().any(|o| matches!(o, Op::Install { .. })) {
                return Err(failure("install-after-refusal", "perform_install in a check whose plan was deferred / denied".to_string(), h, Some((s.start, s.end))));
            }
        }
    }
    classes.sort();
    classes.dedup();
    Ok((nontrivial, classes))
}

pub fn case(t: &mut Tape, ctx: &CaseCtx) -> CaseResult {
    let mode = t.choose(3);
    let h = match mode {
        0 => {
            let kind = t.choose(5) as u8;
            let bits = [t.choose(2) == 1, t.choose(2) == 1, t.choose(2) == 1, t.choose(2) == 1];
            let cs = t.choose(3) as u8;
            let rn = t.choose(2) == 1;
            let ra = t.choose(2) == 1;
            let mut s = Script::default();
            s.apps = vec![AppSpec { id: "app0".into(), version: vec![1, 2], ..Default::default() }, AppSpec { id: "app1".into(), version: vec![3], ..Default::default() }];
            s.check_decisions = vec![CheckDecisionSpec { kind, source_on_demand: Some(bits[0]), proxies: bits[1], disable_updates: bits[2], same_version: bits[3] }];
            s.http = vec![HttpSpec::Resp(RespSpec { status: 200, retry_after: vec![], retry_after_name_case: 0, body: BodySpec::Doc(offer_doc(&s.apps), 0), auth: Auth::Authentic, prefix: false })];
            s.can_start = vec![cs];
            s.reboot_needed = vec![rn];
            s.reboot_allowed = vec![(ra, ra), (true, true)];
            run_history(s, &[LifePlan::new(false, 1, None)])
        }
        1 => {
            let p = Profile { negative_decisions: (1, 3), offer_w: 6, outcome_w: [12, 1, 1, 1, 2, 1, 1], ..Default::default() };
            let mut s = gen_script(t, &p);
            if t.chance(1, 10) {
                s.spoil_app_after_start = Some((t.choose(s.apps.len()), t.choose(2) as u8));
            } else if t.chance(1, 8) {
                let i = t.choose(s.apps.len());
                match t.choose(3) {
                    0 => s.apps[i].id = String::new(),
                    1 => s.apps[i].version = vec![0],
                    _ => s.apps[i].version = vec![0, 0, 0, 0],
                }
            }
            if t.chance(1, 6) {
                // the first boot after an update: the previous life left its finish record for the version now running
                s.storage_init.push(("update_finish_time".into(), SVal::I((s.start_wall_ns / 1000) as i64 - 50_000_000)));
                s.storage_init.push(("target_version".into(), SVal::S(s.os_version.clone())));
            }
            run_history(s, &[LifePlan { oneshot: t.chance(1, 10), checks: 1 + t.choose(3), crash_at: None, wall_at_start: None }])
        }
        _ => super::sched::run_scheduled(t, &super::sched::SchedProfile::default()).0,
    };
    let (nontrivial, mut classes) = check_log(&h)?;
    classes.push(["mode_enumerated_grid", "mode_random_eager", "mode_scheduled_with_control_requests"][mode]);
    Ok(CaseReport {
        key: hash_of(&format!("{:?}{}", h.script, h.log.len())),
        nontrivial,
        classes,
        sample: ctx.want_sample.then(|| {
            json!({"check_decisions": script_json(&h.script)["check_decisions"], "can_start": h.script.can_start, "reboot": [format!("{:?}", h.script.reboot_needed), format!("{:?}", h.script.reboot_allowed)],
                "calls": h.log.iter().filter_map(|o| match o {
                    Op::CheckAllowed { answer, on_demand, .. } => Some(format!("update_check_allowed(on_demand={on_demand}) -> kind {}", answer.kind)),
                    Op::Http { view: Some(v), .. } => Some(format!("request {:?} source={} {:?}", v.kind, v.install_source, v.interactivity)),
                    Op::CanStart { answer, .. } => Some(format!("update_can_start -> {answer}")),
                    Op::Install { .. } => Some("perform_install".to_string()),
                    Op::RebootNeeded { answer, .. } => Some(format!("reboot_needed -> {answer}")),
                    Op::RebootAllowed { answer, on_demand } => Some(format!("reboot_allowed(on_demand={on_demand}) -> {answer}")),
                    Op::Reboot { .. } => Some("perform_reboot".to_string()),
                    _ => None }).take(30).collect::<Vec<_>>()})
        }),
        ambiguous: false,
    })
}

pub fn run(mut run: Run) -> i32 {
    run.replay_committed(&case);
    run.enumerate("check decision x 16 params x install decision x reboot needed x reboot allowed", &[Tape::encode_choice(0, 3)], &[5, 2, 2, 2, 2, 3, 2, 2], &case);
    run.random("random eager histories", &[Tape::encode_choice(1, 3)], run.n(150_000, 1_500_000), 600, &case);
    run.random("scheduled runs with control requests", &[Tape::encode_choice(2, 3)], run.n(90_000, 900_000), 500, &case);
    run.finish(
        RULE,
        300,
        &[
            "scope is continuous operation (start()): oneshot_check() is by contract one unconditional check with default parameters that never consults update_check_allowed; for it only the install-consent clause is monitored",
            "parameters of pings are not asserted (the statement's parameter clause is about requests of that check)",
        ],
    )
}

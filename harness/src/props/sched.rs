//! Schedule-owning driver: every blocking environment operation is a gate the tape opens, control
//! requests are separately polled tasks, the consumer can be delayed, handles cloned / dropped and
//! the machine dropped.  Used by C11, C12, C13 and (for its invariants) C05.

use super::c05::offer_doc;
use super::flow::*;
use crate::engine::*;
use crate::sim::{exec::*, gen::*, types::*, world::*};
use crate::tape::Tape;
use omaha_client::state_machine::ControlHandle;
use std::time::Duration;

#[derive(Clone, Debug)]
pub struct SchedProfile {
    pub steps: usize,
    pub max_requests: usize,
    pub drop_machine: bool,
    pub hold_consumer: bool,
    pub min_wait: (u32, u32),
    pub offer: (u32, u32),
    pub requests_w: u32,
    pub spurious_polls: bool,
    pub fast_forward: u32,
    /// weight of the 'ping storm' step (reboot wait only): pings perpetually due while a request is outstanding
    pub ping_storm_w: u32,
    /// chance that the consumer polls with alternating wakers (0 = never drawn)
    pub switch_wakers: (u32, u32),
}
impl Default for SchedProfile {
    fn default() -> Self {
        SchedProfile { steps: 40, max_requests: 6, drop_machine: true, hold_consumer: true, min_wait: (1, 2), offer: (2, 3), requests_w: 3, spurious_polls: true, fast_forward: 2, ping_storm_w: 0, switch_wakers: (0, 1) }
    }
}

#[derive(Clone, Debug, Default)]
pub struct SchedInfo {
    pub steps: Vec<String>,
    /// the machine was alive, nothing could wake it and no gate was pending: a lost wake-up / deadlock
    pub stalled: Option<String>,
    pub unresolved_at_quiescence: Vec<(usize, usize)>,
    pub ties: usize,
    pub requests: usize,
    pub machine_dropped: bool,
    pub all_handles_dropped: bool,
    pub held_steps: usize,
    /// a request issued in the reboot wait stayed unanswered through this many back-to-back pings
    pub starved: Option<String>,
}

pub fn gen_sched_script(t: &mut Tape, p: &SchedProfile) -> Script {
    let mut s = Script::default();
    let napps = 1 + t.choose(2);
    s.apps = (0..napps).map(|i| AppSpec { id: format!("app{i}"), version: vec![1, i as u32], ..Default::default() }).collect();
    // timings: with / without minimum wait, all three kinds (never exactly 30 min: that is the reboot re-ask interval)
    s.timings = t.vec_of(6, |t| TimingSpec {
        kind: t.weighted(&[2, 2, 2, 3]) as u8,
        delta_ms: *t.pick(&[3_600_000u64, 1000, 0]),
        min_wait_ms: if t.chance(p.min_wait.0, p.min_wait.1) { Some(*t.pick(&[60_000u64, 1, 7_000])) } else { None },
    });
    s.check_decisions = t.vec_of(6, |t| CheckDecisionSpec {
        kind: if t.chance(1, 4) { 2 + t.choose(3) as u8 } else { t.weighted(&[3, 1]) as u8 },
        // the policy may echo the request's options into the parameters, or decide otherwise
        source_on_demand: match t.weighted(&[3, 1, 1]) {
            0 => None,
            1 => Some(true),
            _ => Some(false),
        },
        proxies: t.flag(),
        disable_updates: t.chance(1, 5),
        same_version: t.chance(1, 5),
    });
    let nhttp = t.choose(10);
    s.http = (0..nhttp)
        .map(|_| {
            if t.chance(p.offer.0, p.offer.1) {
                HttpSpec::Resp(RespSpec { status: 200, retry_after: vec![], retry_after_name_case: 0, body: BodySpec::Doc(offer_doc(&s.apps), 0), auth: Auth::Authentic, prefix: false })
            } else if t.chance(1, 5) {
                HttpSpec::Transport
            } else {
                HttpSpec::Resp(RespSpec { status: 200, retry_after: vec![], retry_after_name_case: 0, body: BodySpec::DefaultNoUpdate, auth: Auth::Authentic, prefix: false })
            }
        })
        .collect();
    s.can_start = t.vec_of(3, |t| t.weighted(&[6, 1, 1]) as u8);
    s.reboot_needed = t.vec_of(4, |t| !t.chance(1, 4));
    s.reboot_allowed = t.vec_of(8, |t| (t.chance(1, 3), !t.chance(1, 3)));
    s.installs = t.vec_of(3, |t| InstallSpec { results: t.vec_of(2, |t| t.weighted(&[5, 1, 1]) as u8), progress: t.vec_of(8, |t| t.choose(101) as f32 / 100.0), concurrent: match t.weighted(&[4, 2, 1]) { 0 => 0, 1 => 2 + t.choose(2) as u8, _ => IMPATIENT } });
    s.reboots = t.vec_of(2, |t| !t.chance(1, 5));
    // a server-dictated poll interval in force while waits are armed: on some answers, or restored from storage
    for h in s.http.iter_mut() {
        if let HttpSpec::Resp(r) = h {
            if t.chance(1, 4) {
                r.retry_after = vec![t.pick(&[&b"600"[..], b"5", b"86400", b"0"]).to_vec()];
            }
        }
    }
    if t.chance(1, 8) {
        s.storage_init.push(("server_dictated_poll_interval".into(), SVal::I(*t.pick(&[600_000_000i64, 5_000_000, 86_400_000_000]))));
    }
    if p.switch_wakers.0 > 0 && t.chance(p.switch_wakers.0, p.switch_wakers.1) {
        s.switch_wakers = true;
    }
    s
}

pub struct Sched {
    pub w: W,
    pub m: Machine,
    pub handles: Vec<Option<ControlHandle>>,
    pub reqs: Vec<Req>,
    pub info: SchedInfo,
    pub hold: usize,
    /// pending "slow observer" clock advance, applied right after the next taken event
    pub slow_take: Option<i128>,
    /// a slow observer of the other kind: after the next event it takes it does not poll again for this many steps
    /// (the machine is suspended inside that emission; requests made meanwhile queue up)
    pub hold_after_take: Option<(usize, usize)>,
}

impl Sched {
    pub fn new(script: Script) -> Sched {
        let w = new_world(script);
        lock(&w).eager = false;
        let mut m = Machine::build(&w, false);
        let h = m.ctl.take();
        Sched { w, m, handles: vec![h], reqs: vec![], info: SchedInfo::default(), hold: 0, slow_take: None, hold_after_take: None }
    }

    fn in_reboot_wait(&self) -> bool {
        let g = lock(&self.w);
        phases(&g.log.ops).last() == Some(&Phase::RebootWait)
    }

    fn machine_alive(&self) -> bool {
        self.m.stream.is_some() && !self.m.ended
    }

    /// poll everything that was woken until nothing is (strict discipline)
    pub fn settle(&mut self) {
        for _ in 0..10_000 {
            let mut progressed = false;
            if self.hold == 0 && self.machine_alive() && self.m.woken() {
                let took = self.m.poll_once().is_some();
                progressed = true;
                if took {
                    if let Some((skip, n)) = self.hold_after_take.take() {
                        if skip == 0 {
                            self.hold = n;
                            self.info.steps.push(format!("observer sits on the event just taken for {n} steps"));
                        } else {
                            self.hold_after_take = Some((skip - 1, n));
                        }
                    }
                    if let Some(adv) = self.slow_take.take() {
                        let mut g = lock(&self.w);
                        g.mono_ns += adv;
                        g.wall_ns += adv;
                        g.log.now = (g.wall_ns, g.mono_ns);
                        let (wall, mono) = (g.wall_ns, g.mono_ns);
                        g.log.push(Op::Clock { wall, mono });
                        drop(g);
                        self.info.steps.push(format!("clock +{} s while the observer sits on the event just taken", adv / 1_000_000_000));
                    }
                }
            }
            for r in self.reqs.iter_mut() {
                if r.woken() {
                    r.poll(&self.w);
                    progressed = true;
                }
            }
            if !progressed {
                break;
            }
        }
        if self.hold == 0 {
            let mut g = lock(&self.w);
            g.log.push(Op::Quiescent);
            drop(g);
            for r in &self.reqs {
                if r.done.is_none() {
                    // the machine is alive, quiescent and polled: every request must have been answered by now
                    self.info.unresolved_at_quiescence.push((r.id, self.info.steps.len()));
                }
            }
            // deadlock / lost wake-up: alive, not woken, no gate left to open
            if self.machine_alive() && !self.m.woken() && lock(&self.w).pending_gates().is_empty() && self.info.stalled.is_none() {
                self.info.stalled = Some(format!("after step {}: machine alive, not woken, no pending gate", self.info.steps.len()));
            }
        }
    }

    pub fn issue(&mut self, handle: usize, on_demand: bool) {
        let Some(Some(h)) = self.handles.get(handle) else { return };
        let id = self.reqs.len();
        lock(&self.w).log.push(Op::ControlIssue { req: id, handle, on_demand });
        let mut r = Req::new(id, h.clone(), on_demand);
        r.poll(&self.w);
        self.reqs.push(r);
        self.info.requests += 1;
    }

    pub fn step(&mut self, t: &mut Tape, p: &SchedProfile) {
        if self.hold > 0 {
            self.hold -= 1;
            self.info.held_steps += 1;
        }
        let pending = lock(&self.w).pending_gates();
        let live_handles: Vec<usize> = self.handles.iter().enumerate().filter(|(_, h)| h.is_some()).map(|(i, _)| i).collect();
        let can_req = !live_handles.is_empty() && self.reqs.len() < p.max_requests;
        let choice = t.weighted(&[
            6,                                                              // 0 open one gate
            if can_req { p.requests_w } else { 0 },                        // 1 issue a request
            if can_req && !pending.is_empty() { 2 } else { 0 },             // 2 tie: open a gate AND issue a request before the next poll
            if !live_handles.is_empty() && self.handles.len() < 3 { 1 } else { 0 }, // 3 clone a handle
            if !live_handles.is_empty() { 1 } else { 0 },                   // 4 drop a handle / all handles
            if p.hold_consumer && self.hold == 0 { 1 } else { 0 },          // 5 hold the consumer
            if p.spurious_polls { 1 } else { 0 },                           // 6 spurious poll
            if p.drop_machine && self.machine_alive() && self.info.steps.len() > 4 { 1 } else { 0 }, // 7 drop the machine
            1,                                                              // 8 open two gates before the next poll
            p.fast_forward,                                                 // 9 fast-forward: open every non-timer gate until none is pending
            if can_req && p.ping_storm_w > 0 && self.in_reboot_wait() { p.ping_storm_w } else { 0 }, // 10 ping storm
        ]);
        match choice {
            0 | 8 => {
                let n = if choice == 8 { 2 } else { 1 };
                for _ in 0..n {
                    let pending = lock(&self.w).pending_gates();
                    if pending.is_empty() {
                        break;
                    }
                    let (id, label) = pending[t.choose(pending.len())].clone();
                    self.info.steps.push(format!("open {label:?}"));
                    open_gate(&self.w, id);
                }
                if choice == 8 {
                    self.info.ties += 1;
                }
            }
            1 => {
                let h = live_handles[t.choose(live_handles.len())];
                let od = t.flag();
                self.info.steps.push(format!("request handle={h} on_demand={od}"));
                self.issue(h, od);
            }
            2 => {
                let (id, label) = pending[t.choose(pending.len())].clone();
                let h = live_handles[t.choose(live_handles.len())];
                let od = t.flag();
                self.info.steps.push(format!("tie: open {label:?} + request handle={h} on_demand={od}"));
                if t.flag() {
                    open_gate(&self.w, id);
                    self.issue(h, od);
                } else {
                    self.issue(h, od);
                    open_gate(&self.w, id);
                }
                self.info.ties += 1;
            }
            3 => {
                let h = live_handles[t.choose(live_handles.len())];
                let c = self.handles[h].clone();
                self.handles.push(c);
                lock(&self.w).log.push(Op::HandleClone { from: h, new: self.handles.len() - 1 });
                self.info.steps.push(format!("clone handle {h}"));
            }
            4 => {
                if t.chance(1, 3) {
                    for (i, h) in self.handles.iter_mut().enumerate() {
                        if h.take().is_some() {
                            lock(&self.w).log.push(Op::HandleDrop { handle: i });
                        }
                    }
                    self.info.all_handles_dropped = true;
                    self.info.steps.push("drop all handles".into());
                } else {
                    let h = live_handles[t.choose(live_handles.len())];
                    self.handles[h] = None;
                    lock(&self.w).log.push(Op::HandleDrop { handle: h });
                    self.info.steps.push(format!("drop handle {h}"));
                    if self.handles.iter().all(|h| h.is_none()) {
                        self.info.all_handles_dropped = true;
                    }
                }
            }
            5 => {
                self.hold = 1 + t.choose(3);
                self.info.steps.push(format!("hold consumer for {} steps", self.hold));
                // a slow observer: after the next event it takes, time passes (both clocks move on) before it polls again -
                // the state machine is then suspended inside that emission while the clock advances
                if t.flag() {
                    self.slow_take = Some(*t.pick(&[1_000_000_000i128, 40_000_000_000, 3_600_000_000_000]));
                }
                // ... or the hold only begins once the observer has taken its next event (whenever that is)
                if t.chance(1, 3) {
                    self.hold_after_take = Some((t.choose(8), self.hold));
                    self.hold = 0;
                }
            }
            6 => {
                if self.hold == 0 && self.machine_alive() {
                    self.info.steps.push("spurious poll".into());
                    self.m.poll_once();
                }
            }
            10 => {
                // the policy keeps answering "the next ping is due now": every ping timer is ready the moment it is armed.
                // A request made meanwhile must still be answered: select! picks among ready branches at random, so it
                // is overtaken by at most a handful of pings (64 in a row has probability 2^-64)
                let h = live_handles[t.choose(live_handles.len())];
                let od = t.flag();
                self.info.steps.push(format!("ping storm + request handle={h} on_demand={od}"));
                self.hold = 0;
                lock(&self.w).ping_storm = true;
                // let the wait in progress run into the storm first: fire its pending ping timers
                let pending_now = lock(&self.w).pending_gates();
                for (id, l) in pending_now {
                    if matches!(l, GateLabel::TimerUntil(_)) || matches!(l, GateLabel::TimerFor(_, d) if d != REBOOT_RECHECK) {
                        open_gate(&self.w, id);
                    }
                }
                self.issue(h, od);
                let rid = self.reqs.len() - 1;
                let mut rounds = 0;
                while rounds < 64 && self.reqs[rid].done.is_none() && self.machine_alive() && self.in_reboot_wait() {
                    self.settle();
                    // complete whatever exchange (ping) is in flight
                    let pending = lock(&self.w).pending_gates();
                    let Some((id, _)) = pending.iter().find(|(_, l)| matches!(l, GateLabel::Http(_))).cloned() else { break };
                    open_gate(&self.w, id);
                    rounds += 1;
                }
                self.settle();
                lock(&self.w).ping_storm = false;
                if rounds >= 64 && self.reqs[rid].done.is_none() {
                    self.info.starved = Some(format!("request #{rid} issued in the reboot wait was still unanswered after {rounds} back-to-back pings"));
                }
            }
            9 => {
                self.info.steps.push("fast-forward non-timer gates".into());
                for _ in 0..30 {
                    let pending = lock(&self.w).pending_gates();
                    let Some((id, _)) = pending.iter().find(|(_, l)| !matches!(l, GateLabel::TimerUntil(_) | GateLabel::TimerFor(..) | GateLabel::Reboot)).cloned() else { break };
                    open_gate(&self.w, id);
                    self.hold = 0;
                    self.settle();
                }
            }
            _ => {
                self.info.steps.push("drop the machine".into());
                self.m.kill(false);
                self.info.machine_dropped = true;
                // every outstanding request must now resolve (Gone), not hang
                for r in self.reqs.iter_mut() {
                    r.poll(&self.w);
                }
                // and a request made afterwards fails with Gone as well
                if let Some(h) = live_handles.first() {
                    let od = t.flag();
                    self.issue(*h, od);
                }
            }
        }
        self.settle();
    }

    /// open everything that is pending, repeatedly, so that the flow runs on (bounded)
    pub fn drain(&mut self, rounds: usize) {
        self.hold = 0;
        self.settle();
        for _ in 0..rounds {
            if !self.machine_alive() {
                break;
            }
            let pending = lock(&self.w).pending_gates();
            if pending.is_empty() {
                break;
            }
            // fire time-bound timers last so that checks in flight finish first
            let pick = pending.iter().find(|(_, l)| !matches!(l, GateLabel::TimerUntil(_) | GateLabel::TimerFor(..))).or(pending.first()).unwrap().clone();
            self.info.steps.push(format!("drain: open {:?}", pick.1));
            open_gate(&self.w, pick.0);
            self.settle();
        }
    }

    pub fn finish(mut self) -> (Hist, SchedInfo) {
        if self.machine_alive() {
            self.m.kill(false);
        }
        for r in self.reqs.iter_mut() {
            r.poll(&self.w);
        }
        let g = lock(&self.w);
        let h = Hist { script: g.script.clone(), log: g.log.ops.clone(), stamps: g.log.stamps.clone(), ends: vec![], storage: g.storage.clone(), interactions: g.interactions };
        drop(g);
        (h, self.info)
    }
}

pub fn run_scheduled(t: &mut Tape, p: &SchedProfile) -> (Hist, SchedInfo) {
    let script = gen_sched_script(t, p);
    let steps = 4 + t.choose(p.steps);
    let mut s = Sched::new(script);
    s.settle();
    for _ in 0..steps {
        s.step(t, p);
        if s.info.machine_dropped {
            break;
        }
    }
    if !s.info.machine_dropped {
        s.drain(12);
    }
    s.finish()
}

/// Phases of the run loop, reconstructed from the log (for the trace acceptors).
#[derive(Clone, Copy, Debug, PartialEq, Eq)]
pub enum Phase {
    Starting,
    Waiting,
    Checking,
    RebootWait,
    Gone,
}

pub fn phases(log: &[Op]) -> Vec<Phase> {
    let mut out = Vec::with_capacity(log.len());
    let mut p = Phase::Starting;
    for op in log {
        match op {
            Op::Build { .. } => p = Phase::Starting,
            Op::NextTime { .. } if p != Phase::RebootWait => p = Phase::Waiting,
            Op::CheckAllowed { answer, .. } => p = if answer.positive() { Phase::Checking } else { Phase::Waiting },
            Op::Took(EventView::State(StateView::WaitingForReboot)) => p = Phase::RebootWait,
            Op::Took(EventView::State(StateView::Idle)) => p = Phase::Waiting,
            Op::MachineDropped | Op::StreamEnd => p = Phase::Gone,
            _ => {}
        }
        out.push(p);
    }
    out
}

pub const REBOOT_RECHECK: Duration = Duration::from_secs(30 * 60);

//! C20 — Versions parse, print and order numerically.
//!
//! Oracle: a reference parser written from the statement (1..=4 non-empty all-ASCII-digit parts,
//! each <= u32::MAX, zero-filled), differential against `Version::from_str`, plus round-trip,
//! JSON, array-conversion and ordering laws.

use crate::engine::*;
use crate::tape::Tape;
use omaha_client::version::Version;
use serde_json::json;
use std::str::FromStr;

pub const RULE: &str = "modes: (0) generated strings over digits/dots/signs/spaces/letters vs reference parser, \
(1) component tuples x part count: print/parse/JSON/array laws, (2) pairs of tuples: ordering == tuple ordering; \
grid: part count 0..6 x boundary parts enumerated exhaustively. non-trivial = string with >=2 parts, or a boundary \
component (0, 9, 10, u32::MAX, overflow), or any rejection class; distinct by input hash. Parts of the form '+digits' \
are counted as ambiguous and excluded (Rust's integer parser accepts them; the statement leaves them open).";

/// reference parser written from the statement
pub fn reference(s: &str) -> Option<[u32; 4]> {
    let parts: Vec<&str> = s.split('.').collect();
    if parts.is_empty() || parts.len() > 4 {
        return None;
    }
    let mut out = [0u32; 4];
    for (i, p) in parts.iter().enumerate() {
        if p.is_empty() || !p.bytes().all(|b| b.is_ascii_digit()) {
            return None;
        }
        let trimmed = p.trim_start_matches('0');
        if trimmed.len() > 10 {
            return None;
        }
        let v: u64 = if trimmed.is_empty() { 0 } else { trimmed.parse().ok()? };
        if v > u32::MAX as u64 {
            return None;
        }
        out[i] = v as u32;
    }
    Some(out)
}

fn canon(a: [u32; 4]) -> String {
    format!("{}.{}.{}.{}", a[0], a[1], a[2], a[3])
}

pub const GRID: &[&str] = &[
    "0", "1", "9", "10", "4294967295", "4294967296", "", "a", "007", "-1", " 1", "99999999999999999999", "+1",
];

fn gen_part(t: &mut Tape) -> String {
    match t.weighted(&[6, 2, 1, 1, 1, 1, 2]) {
        0 => t.u32_biased().to_string(),
        1 => GRID[t.choose(GRID.len())].to_string(),
        2 => format!("{}", t.u32_biased() as u64 + u32::MAX as u64),
        3 => {
            const A: &[char] = &['a', ' ', '-', '+', 'x', '1', '0', 'e', '\u{663}', '_'];
            t.string_of(A, 4)
        }
        4 => format!("{}{}", "0".repeat(t.choose(12)), t.u32_biased()),
        5 => {
            // long digit strings
            const D: &[char] = &['0', '1', '4', '9'];
            t.string_of(D, 24)
        }
        _ => {
            // long non-numeric parts: digits and letters of one to four bytes at every offset
            const A: &[char] = &['1', '0', '9', 'a', '\u{e9}', '\u{df}', '\u{20ac}', '\u{4e2d}', '\u{1f600}', '\u{663}', ' ', '\u{0}', '-'];
            let digits = t.choose(14);
            format!("{}{}", "1234567890123".chars().take(digits).collect::<String>(), t.string_of(A, 24))
        }
    }
}

fn gen_string(t: &mut Tape) -> String {
    match t.weighted(&[8, 2]) {
        0 => {
            let parts = t.choose(7);
            let mut s = String::new();
            for p in 0..parts {
                if p > 0 {
                    s.push('.');
                }
                s.push_str(&gen_part(t));
            }
            s
        }
        _ => {
            const A: &[char] = &['0', '1', '2', '9', '.', '.', '+', '-', ' ', 'a', 'x', '\u{e9}', '\u{20ac}', '\u{1f600}'];
            t.string_of(A, 40)
        }
    }
}

fn fail(sig: &str, msg: String, input: &str) -> Failure {
    Failure::new(sig, msg, json!({"input": input}))
}

fn check_string(s: &str, want_sample: bool) -> CaseResult {
    let ambiguous = s.split('.').any(|p| p.starts_with('+'));
    let got = Version::from_str(s);
    let want = reference(s);
    let mut classes = vec!["string"];
    if s.split('.').any(|p| p.len() > 10 && !p.is_ascii()) {
        classes.push("long_non_ascii_part");
    }
    let parts = s.split('.').count();
    let mut nontrivial = parts >= 2;
    if !ambiguous {
        match (&got, &want) {
            (Ok(v), Some(w)) => {
                classes.push("accepted");
                if v.to_string() != canon(*w) {
                    return Err(fail("parse-value", format!("{s:?} parsed to {v} but the statement says {}", canon(*w)), s));
                }
                if *v != Version::from(*w) {
                    return Err(fail("parse-eq", format!("{s:?}: parsed value != Version::from({w:?})"), s));
                }
                // parse(print(v)) == v
                let printed = v.to_string();
                match Version::from_str(&printed) {
                    Ok(v2) if v2 == *v => {}
                    other => return Err(fail("print-parse", format!("{s:?}: parse(print(v)) = {other:?}, v = {v}"), s)),
                }
                if w.iter().any(|c| [0, 9, 10, u32::MAX].contains(c)) {
                    nontrivial = true;
                }
            }
            (Err(_), None) => {
                classes.push("rejected");
                nontrivial = true;
            }
            (Ok(v), None) => {
                return Err(fail("accepts-invalid", format!("{s:?} must be rejected but parsed to {v}"), s));
            }
            (Err(e), Some(w)) => {
                return Err(fail("rejects-valid", format!("{s:?} must parse to {} but was rejected: {e}", canon(*w)), s));
            }
        }
        // JSON deserialisation of the string agrees with from_str, however the JSON text reaches the deserializer:
        // plain literal, fully \u-escaped literal, an owned serde_json::Value, a reader, a field of a document
        let js = serde_json::to_string(s).unwrap();
        let escaped = format!("\"{}\"", s.chars().flat_map(|c| { let mut b = [0u16; 2]; c.encode_utf16(&mut b).iter().map(|u| format!("\\u{:04x}", u)).collect::<Vec<_>>() }).collect::<String>());
        let routes: Vec<(&str, Result<Version, String>)> = vec![
            ("from_str", serde_json::from_str::<Version>(&js).map_err(|e| e.to_string())),
            ("from_str (escaped)", serde_json::from_str::<Version>(&escaped).map_err(|e| e.to_string())),
            ("from_value", serde_json::from_value::<Version>(serde_json::Value::String(s.to_string())).map_err(|e| e.to_string())),
            ("from_reader", serde_json::from_reader::<_, Version>(js.as_bytes()).map_err(|e| e.to_string())),
            ("field of a document", serde_json::from_str::<std::collections::BTreeMap<String, Version>>(&format!("{{\"v\":{js}}}")).map(|m| m["v"]).map_err(|e| e.to_string())),
        ];
        for (route, de) in routes {
            match (&de, &want) {
                (Ok(v), Some(w)) if v.to_string() == canon(*w) => {}
                (Err(_), None) => {}
                _ => return Err(fail("json-de", format!("JSON string {js} via {route} deserialised to {de:?}, reference {want:?}"), s)),
            }
        }
    } else {
        classes.push("ambiguous_plus");
    }
    Ok(CaseReport {
        key: hash_of(&("s", s)),
        nontrivial,
        classes,
        sample: want_sample.then(|| json!({"mode": "string", "input": s, "reference": want.map(canon)})),
        ambiguous,
    })
}

fn gen_tuple(t: &mut Tape) -> [u32; 4] {
    [t.u32_biased(), t.u32_biased(), t.u32_biased(), t.u32_biased()]
}

fn check_tuple(a: [u32; 4], n: usize, want_sample: bool) -> CaseResult {
    // n in 1..=4 parts
    let mut z = [0u32; 4];
    z[..n].copy_from_slice(&a[..n]);
    let s = a[..n].iter().map(|c| c.to_string()).collect::<Vec<_>>().join(".");
    let case = json!({"components": &a[..n]});
    let v = match Version::from_str(&s) {
        Ok(v) => v,
        Err(e) => return Err(Failure::new("tuple-rejected", format!("{s:?} rejected: {e}"), case)),
    };
    let from_arr = match n {
        1 => Version::from([a[0]]),
        2 => Version::from([a[0], a[1]]),
        3 => Version::from([a[0], a[1], a[2]]),
        _ => Version::from(a),
    };
    if v != from_arr || from_arr != Version::from(z) {
        return Err(Failure::new("array-zero-fill", format!("parse({s:?}) = {v}, from(array[..{n}]) = {from_arr}, zero-filled = {}", canon(z)), case));
    }
    // printing *always* yields the canonical form: whatever width / fill / sign / zero flags the caller's format spec
    // carries, what is printed (padding aside) is the canonical text, never per-component formatting
    for printed in [format!("{v:12}"), format!("{v:<3}"), format!("{v:03}"), format!("{v:+}"), format!("{v:>40?}"), format!("{v:#?}")] {
        if printed.trim() != canon(z) {
            return Err(Failure::new("print-under-format-spec", format!("{:?} printed under a format spec as {printed:?}, canonical form is {:?}", &a[..n], canon(z)), json!({"components": &a[..n]})));
        }
    }
    if v.to_string() != canon(z) || format!("{v:?}") != canon(z) {
        return Err(Failure::new("print-canonical", format!("{s:?} prints as {v} / {v:?}, expected {}", canon(z)), case));
    }
    let js = serde_json::to_string(&v).unwrap_or_default();
    if js != format!("\"{}\"", canon(z)) {
        return Err(Failure::new("json-ser", format!("serialised as {js}, expected \"{}\"", canon(z)), case));
    }
    match serde_json::from_str::<Version>(&js) {
        Ok(v2) if v2 == v => {}
        other => return Err(Failure::new("json-roundtrip", format!("JSON round trip of {v} gave {other:?}"), case)),
    }
    // through an owned Value as well (to_value / from_value)
    match serde_json::to_value(v).and_then(serde_json::from_value::<Version>) {
        Ok(v2) if v2 == v => {}
        other => return Err(Failure::new("json-value-roundtrip", format!("to_value/from_value round trip of {v} gave {other:?}"), case)),
    }
    // value-typed JSON is rejected
    for bad in [format!("{}", a[0]), format!("[{}]", a[0]), "null".to_string(), "{}".to_string(), "true".to_string()] {
        if let Ok(x) = serde_json::from_str::<Version>(&bad) {
            return Err(Failure::new("json-nonstring", format!("non-string JSON {bad} deserialised to {x}"), case));
        }
    }
    let boundary = z.iter().any(|c| [0, 9, 10, u32::MAX].contains(c));
    Ok(CaseReport {
        key: hash_of(&("t", z, n)),
        nontrivial: n >= 2 || boundary,
        classes: vec!["tuple"],
        sample: want_sample.then(|| json!({"mode": "tuple", "parts": n, "components": &a[..n], "printed": v.to_string()})),
        ambiguous: false,
    })
}

fn check_order(a: [u32; 4], b: [u32; 4], want_sample: bool) -> CaseResult {
    let (va, vb) = (Version::from(a), Version::from(b));
    let case = json!({"a": a, "b": b});
    if va.cmp(&vb) != a.cmp(&b) || va.partial_cmp(&vb) != Some(a.cmp(&b)) {
        return Err(Failure::new("order", format!("cmp({va},{vb}) = {:?}, numeric component-wise = {:?}", va.cmp(&vb), a.cmp(&b)), case));
    }
    if (va == vb) != (a == b) || (va < vb) != (a < b) || (va >= vb) != (a >= b) {
        return Err(Failure::new("order-ops", format!("comparison operators disagree with components for {va} vs {vb}"), case));
    }
    // ordering of parsed text agrees too (numeric, not lexicographic)
    let (pa, pb) = (Version::from_str(&canon(a)), Version::from_str(&canon(b)));
    match (pa, pb) {
        (Ok(pa), Ok(pb)) if pa.cmp(&pb) == a.cmp(&b) => {}
        _ => return Err(Failure::new("order-parsed", format!("parsed {} vs {} ordered differently from components", canon(a), canon(b)), case)),
    }
    let differ_late = a[0] == b[0] && a != b;
    Ok(CaseReport {
        key: hash_of(&("o", a, b)),
        nontrivial: differ_late || a == b,
        classes: vec!["order"],
        sample: want_sample.then(|| json!({"mode": "order", "a": canon(a), "b": canon(b), "cmp": format!("{:?}", a.cmp(&b))})),
        ambiguous: false,
    })
}

/// raw-text entry point (fuzzing)
pub fn check_text(s: &str) -> Result<(), Failure> {
    check_string(s, false).map(|_| ())
}

pub fn case(t: &mut Tape, ctx: &CaseCtx) -> CaseResult {
    match t.choose(4) {
        0 => {
            let s = gen_string(t);
            check_string(&s, ctx.want_sample)
        }
        1 => {
            let n = 1 + t.choose(4);
            let a = gen_tuple(t);
            check_tuple(a, n, ctx.want_sample)
        }
        2 => {
            let a = gen_tuple(t);
            // make near-equal pairs common
            let mut b = a;
            match t.choose(4) {
                0 => b = gen_tuple(t),
                1 => {
                    let i = t.choose(4);
                    b[i] = t.u32_biased();
                }
                2 => {
                    let i = t.choose(4);
                    b[i] = b[i].wrapping_add(1);
                }
                _ => {
                    let i = t.choose(4);
                    let j = t.choose(4);
                    b.swap(i, j);
                }
            }
            check_order(a, b, ctx.want_sample)
        }
        _ => {
            // grid: part count 0..=6, each part from GRID (exhaustively enumerable)
            let parts = t.choose(7);
            let mut v = vec![];
            for _ in 0..6 {
                v.push(GRID[t.choose(GRID.len())]);
            }
            let s = v[..parts].join(".");
            check_string(&s, ctx.want_sample)
        }
    }
}

pub fn run(mut run: Run) -> i32 {
    run.replay_committed(&case);
    // boundary inputs incl. the seeded C20 overflow window (u32::MAX+1..+4) with leading zeros and in every position
    let mut fixed: Vec<(String, Box<dyn Fn() -> CaseResult>)> = vec![];
    for n in [4294967295u64, 4294967296, 4294967297, 4294967298, 4294967299, 4294967300, 42949672950, 9999999999] {
        for s in [format!("{n}"), format!("1.{n}"), format!("1.2.{n}"), format!("1.2.3.{n}"), format!("00{n}.0"), format!("{n}.{n}.{n}.{n}")] {
            fixed.push((s.clone(), Box::new(move || check_string(&s, false))));
        }
    }
    run.fixed("regression inputs (overflow window)", fixed);
    // exhaustive grid: quick uses the first 7 grid values for 6 slots, thorough all 13 for up to 5 slots + full
    let k = run.n(7, GRID.len());
    // restrict the grid alphabet by enumerating only indices < k: dims use GRID.len() encoding, so enumerate
    // explicit index vectors instead
    let g = GRID.len();
    let mut tapes = vec![];
    let slots = run.n(6, 6);
    for parts in 0..7usize {
        let used = parts.min(slots);
        let total = k.pow(used as u32);
        for mut idx in 0..total {
            let mut tape = vec![Tape::encode_choice(3, 4), Tape::encode_choice(parts, 7)];
            for _ in 0..used {
                tape.push(Tape::encode_choice(idx % k, g));
                idx /= k;
            }
            tapes.push(tape);
        }
    }
    run.explicit(&format!("grid: part count 0..6 x first {k} boundary parts"), tapes, &case);
    let n = run.n(200_000, 10_000_000);
    run.random("strings", &[Tape::encode_choice(0, 4)], n / 2, 48, &case);
    run.random("tuples", &[Tape::encode_choice(1, 4)], n / 4, 16, &case);
    run.random("order", &[Tape::encode_choice(2, 4)], n / 4, 24, &case);
    run.finish(
        RULE,
        1000,
        &[
            "printing under a format spec: padding (whatever the fill) may surround the text, the text itself is the canonical form; Debug prints like Display","Rust's u32::from_str accepts a leading '+': such parts are excluded as ambiguous", "serde_json used as the JSON codec"],
    )
}

//! C08 — Protocol bookkeeping is exact, durable and crash-consistent.

use super::flow::*;
use crate::engine::*;
use crate::sim::{gen::*, types::*};
use crate::tape::Tape;
use serde_json::json;
use std::collections::BTreeMap;
use std::sync::atomic::{AtomicU64, Ordering};
use std::time::Duration;

pub const RULE: &str = "a case = one generated history of 1-3 checks (outcomes: success no-update, success with install, \
transport failure, HTTP status, forged, unparseable body, plan creation failure, request construction failure (junk \
service URL, 1 history in 8); pings in reboot waits with outcomes ok / \
transport / forged / unparseable; clock stepping at every interaction), run once to the end and then RE-RUN ONCE PER \
ENVIRONMENT INTERACTION with the process killed at that interaction (uncommitted storage discarded) and a new state machine \
built on the surviving storage. Oracle: a model triple (failures since last success, last-contact window, poll interval): \
every commit shows the model's current pair (failures, last contact) or the one before the latest change as a unit (never \
a mixture) and the current poll interval; at every finished point (result delivered and Idle taken, or the one-shot stream \
ended) committed storage decodes to exactly the model's triple; the last-contact time lies between the delivery of the \
answering response and the announcement of the result; after every crash the rebuilt machine shows its policy exactly the \
decode of the last committed snapshot (microsecond precision, wall-only). non-trivial = a history with >= 2 steps of \
different class, or a crash that fell between two storage writes / between a write and its commit; distinct by (script, \
crash point) hash.";

pub static CRASH_RUNS: AtomicU64 = AtomicU64::new(0);
pub static CRASH_BETWEEN_WRITES: AtomicU64 = AtomicU64::new(0);

pub fn profile() -> Profile {
    Profile { outcome_w: [10, 3, 1, 1, 3, 2, 3], cup: (1, 3), offer_w: 4, retry_after: (1, 5), max_apps: 2, cohorts: false, junk_url: (1, 8), ..Default::default() }
}

#[derive(Clone, Copy, Debug, PartialEq)]
struct Pair {
    failures: u32,
    /// (lowest, highest) acceptable wall ns; None = never contacted
    last: Option<(i128, i128)>,
}

fn stored_triple(c: &BTreeMap<String, SVal>) -> (u32, Option<i64>, Option<Duration>) {
    let f = match c.get("consecutive_failed_update_checks") {
        Some(SVal::I(v)) => u32::try_from(*v).unwrap_or(0),
        _ => 0,
    };
    let l = match c.get("last_update_time") {
        Some(SVal::I(v)) => Some(*v),
        _ => None,
    };
    (f, l, stored_poll(c))
}

fn pair_matches(p: &Pair, f: u32, last_us: Option<i64>) -> bool {
    if p.failures != f {
        return false;
    }
    match (p.last, last_us) {
        (None, None) => true,
        (Some((lo, hi)), Some(us)) => {
            let ns = us as i128 * 1000;
            // stored value is the µs truncation of an instant inside the window
            ns >= lo.div_euclid(1000) * 1000 && ns <= hi
        }
        _ => false,
    }
}

/// lowest and highest wall-clock reading logged between two log positions (inclusive)
fn wall_window(h: &Hist, from: usize, to: usize) -> (i128, i128) {
    let it = h.stamps[from..=to.max(from)].iter().map(|s| s.0);
    (it.clone().min().unwrap(), it.max().unwrap())
}

pub fn check_history(h: &Hist) -> Result<(bool, Vec<&'static str>), Failure> {
    let log = &h.log;
    let evals = evaluate(h);
    let mut classes: Vec<&'static str> = vec![];
    let mut kinds = std::collections::BTreeSet::new();
    // model
    let init: BTreeMap<String, SVal> = h.script.storage_init.iter().cloned().collect();
    let (f0, l0, _) = stored_triple(&init);
    let mut cur = Pair { failures: f0, last: l0.map(|us| (us as i128 * 1000, us as i128 * 1000)) };
    let mut prev = cur;
    let mut poll_model: Option<Option<Duration>> = Some(stored_poll(&init)); // None = unknown (ambiguous header)
    let mut ping_reqs: Vec<usize> = vec![];
    let mut last_uc_done: Option<usize> = None;
    let mut expect_after_restart: Option<(u32, Option<i64>, Option<Duration>)> = None;
    for (i, op) in log.iter().enumerate() {
        let around = Some((i.saturating_sub(14), (i + 3).min(log.len())));
        match op {
            Op::Build { life, .. } => {
                // the rebuilt machine continues from the last completed commit
                let c = committed_at(log, i, &h.script);
                let (f, l, p) = stored_triple(&c);
                if *life > 0 {
                    // never a mixture: the surviving triple is one the model held
                    if !(pair_matches(&cur, f, l) || pair_matches(&prev, f, l)) {
                        return Err(failure(
                            "surviving-storage-is-a-mixture",
                            format!("after the crash storage holds failures={f} last_update_time={l:?}, which is neither the model's current {cur:?} nor its previous {prev:?} state"),
                            h,
                            around,
                        ));
                    }
                    classes.push("restart");
                }
                cur = Pair { failures: f, last: l.map(|us| (us as i128 * 1000, us as i128 * 1000)) };
                prev = cur;
                poll_model = Some(p);
                expect_after_restart = Some((f, l, p));
                ping_reqs.clear();
                last_uc_done = None;
            }
            Op::NextTime { sched, state, .. } | Op::CheckAllowed { sched, state, .. } => {
                if let Some((f, l, p)) = expect_after_restart.take() {
                    let want_time = l.map(|us| TimeView { wall: Some(us as i128 * 1000), mono: None });
                    if state.failures != f || state.poll != p || sched.last_update_time != want_time {
                        return Err(failure(
                            "restart-does-not-present-committed-values",
                            format!("the rebuilt machine shows its policy failures={} poll={:?} last_update_time={:?}; the last commit holds failures={f} poll={p:?} last_update_time={want_time:?}", state.failures, state.poll, sched.last_update_time),
                            h,
                            around,
                        ));
                    }
                }
                // what the policy sees is the model
                if state.failures != cur.failures {
                    return Err(failure("failure-count-wrong", format!("the policy is shown {} consecutive failures; failed checks/pings since the last success: {}", state.failures, cur.failures), h, around));
                }
                match (sched.last_update_time, cur.last) {
                    (None, None) => {}
                    (Some(TimeView { wall: Some(w), .. }), Some((lo, hi))) if w >= lo.div_euclid(1000) * 1000 && w <= hi => {}
                    (g, w) => return Err(failure("last-contact-wrong", format!("the policy is shown last-contact {g:?}; the model window is {w:?}"), h, around)),
                }
            }
            Op::Http { n, view: Some(v), .. } if v.kind == ReqKind::Ping => ping_reqs.push(*n),
            Op::HttpDone { n, answer } => {
                if let HttpAnswer::Response { authentic: true, retry_after, .. } = answer {
                    poll_model = match crate::model::read_retry_after(retry_after) {
                        crate::model::PollReading::Is(v) => Some(v),
                        _ => None,
                    };
                }
                if ping_reqs.contains(n) {
                    let ok = matches!(answer, HttpAnswer::Response { authentic: true, status, body: BodyView::Doc(_), .. } if (200..300).contains(status));
                    prev = cur;
                    if ok {
                        // last-contact := some instant from now until the next policy call (within this life: a restart
                        // may come with a stepped wall clock)
                        let to = log[i..].iter().position(|o| matches!(o, Op::NextTime { .. } | Op::Build { .. } | Op::Crash { .. })).map(|k| i + k).unwrap_or(log.len() - 1);
                        cur = Pair { failures: 0, last: Some(wall_window(h, i, to)) };
                        kinds.insert("ping_ok");
                    } else {
                        cur = Pair { failures: cur.failures + 1, last: cur.last };
                        kinds.insert("ping_failed");
                    }
                } else {
                    last_uc_done = Some(i);
                }
            }
            Op::Took(EventView::Result(r)) => {
                let Some(ev) = evals.iter().find(|e| e.seg.result_at == Some(i)) else { continue };
                if !ev.expect.complete || ev.expect.poll_ambiguous {
                    classes.push("model_unavailable");
                    return Ok((false, classes));
                }
                prev = cur;
                let failed = ev.expect.failed.unwrap_or(false);
                let updated = ev.expect.last_contact_updated.unwrap_or(false);
                // the answering response: the last update-check response before the result
                let uc_done = log[ev.seg.start..i].iter().enumerate().filter(|(_, o)| matches!(o, Op::HttpDone { .. })).map(|(k, _)| ev.seg.start + k).next_back();
                let _ = uc_done;
                let answered_at = {
                    // delivery of the response that answered the update check = the HttpDone of the last update-check attempt
                    let mut last_uc = None;
                    let mut uc_ns: Vec<usize> = vec![];
                    for (k, o) in log[ev.seg.start..i].iter().enumerate() {
                        match o {
                            Op::Http { n, view: Some(v), .. } if v.kind == ReqKind::UpdateCheck => uc_ns.push(*n),
                            Op::HttpDone { n, .. } if uc_ns.contains(n) => last_uc = Some(ev.seg.start + k),
                            _ => {}
                        }
                    }
                    last_uc
                };
                cur = Pair {
                    failures: if failed { cur.failures + 1 } else { 0 },
                    last: if updated { Some(wall_window(h, answered_at.unwrap_or(ev.seg.start), i)) } else { cur.last },
                };
                kinds.insert(match r {
                    ResultView::Ok(_) => {
                        if ev.expect.install_attempted {
                            "success_with_install"
                        } else {
                            "success"
                        }
                    }
                    ResultView::Err(e) => match e.as_str() {
                        "request:transport" => "transport_failure",
                        "request:cup-validation" => "forged",
                        "parse" => "unparseable",
                        "install-plan" => "plan_failure",
                        "request:http-builder" | "request:cup-decoration" | "request:json" => "construction_failure",
                        _ => "http_status",
                    },
                });
                // the announcement itself carries the new pair
                let (sched, proto) = (
                    log[ev.seg.start..i].iter().rev().find_map(|o| if let Op::Took(EventView::Schedule(s)) = o { Some(*s) } else { None }),
                    log[ev.seg.start..i].iter().rev().find_map(|o| if let Op::Took(EventView::Protocol(p)) = o { Some(*p) } else { None }),
                );
                if let (Some(s), Some(p)) = (sched, proto) {
                    if p.failures != cur.failures {
                        return Err(failure("failure-count-wrong", format!("the check announced {} consecutive failures; the model says {} ({})", p.failures, cur.failures, if failed { "this check failed" } else { "this check succeeded" }), h, around));
                    }
                    match (s.last_update_time, cur.last) {
                        (None, None) => {}
                        (Some(TimeView { wall: Some(w), .. }), Some((lo, hi))) if w >= lo.div_euclid(1000) * 1000 && w <= hi => {}
                        (g, w) => {
                            return Err(failure(
                                "last-contact-wrong",
                                format!("the check (result {r:?}) announced last-contact {g:?}; it must be {} (window {w:?})", if updated { "the time of this check's answer" } else { "untouched" }),
                                h,
                                around,
                            ))
                        }
                    }
                }
            }
            Op::Committed { .. } => {
                let c = committed_at(log, i + 1, &h.script);
                let (f, l, p) = stored_triple(&c);
                if !(pair_matches(&cur, f, l) || pair_matches(&prev, f, l)) {
                    return Err(failure(
                        "commit-is-a-mixture",
                        format!("a commit holds failures={f} last_update_time={l:?}: neither the model's current {cur:?} nor its previous {prev:?} state"),
                        h,
                        around,
                    ));
                }
                if let Some(pm) = poll_model {
                    if p != pm {
                        return Err(failure("commit-poll-interval", format!("a commit holds poll interval {p:?}, the model says {pm:?}"), h, around));
                    }
                }
            }
            Op::Took(EventView::State(StateView::Idle)) | Op::StreamEnd => {
                // finished point: everything is committed
                let finished_check = log[..i].iter().rev().take_while(|o| !matches!(o, Op::Build { .. })).any(|o| matches!(o, Op::Took(EventView::Result(_))));
                if finished_check {
                    let c = committed_at(log, i, &h.script);
                    let (f, l, p) = stored_triple(&c);
                    if !pair_matches(&cur, f, l) || poll_model.map(|pm| pm != p).unwrap_or(false) {
                        return Err(failure(
                            "not-durable-at-finished-point",
                            format!("the check is finished but committed storage holds failures={f} last_update_time={l:?} poll={p:?}; the model says {cur:?} poll={poll_model:?}"),
                            h,
                            around,
                        ));
                    }
                }
            }
            _ => {}
        }
    }
    let _ = last_uc_done;
    for k in &kinds {
        classes.push(k);
    }
    let nontrivial = kinds.len() >= 2;
    classes.sort();
    classes.dedup();
    Ok((nontrivial, classes))
}

/// wall clock at the start of the life after a restart: unchanged, or stepped back / forward (a device whose clock is
/// not yet synchronised after a reboot reads earlier than the stored last-contact time)
pub fn gen_restart_wall(t: &mut Tape, script: &Script) -> Option<i128> {
    const HOUR: i128 = 3_600_000_000_000;
    match t.weighted(&[3, 1, 1, 1, 1]) {
        0 => None,
        1 => Some(script.start_wall_ns - HOUR),
        2 => Some(script.start_wall_ns - 24 * HOUR - t.choose(1000) as i128),
        3 => Some(1_000_000_007),
        _ => Some(script.start_wall_ns + 24 * HOUR),
    }
}

pub fn gen_case(t: &mut Tape) -> (Script, LifePlan) {
    let life = LifePlan { oneshot: t.chance(1, 6), checks: 1 + t.choose(3), crash_at: None, wall_at_start: None };
    let mut script = gen_script(t, &profile());
    script.metrics_fail = false;
    // the wall clock may be corrected (either way) while the machine runs
    if t.chance(1, 3) {
        let base = script.start_wall_ns;
        for step in script.clock.iter_mut() {
            if t.chance(1, 4) {
                step.wall_jump = Some(base + *t.pick(&[86_400_000_000_000i128, -7_200_000_000_000, 3_600_000_000_000, 5_000_000_000]));
            }
        }
    }
    if t.flag() {
        script.reboot_needed = vec![true; 3];
        script.reboot_allowed = vec![(false, false), (false, false), (false, false), (true, true)];
    } else {
        script.reboot_allowed = vec![];
    }
    if t.chance(1, 3) {
        script.storage_init.push(("consecutive_failed_update_checks".into(), SVal::I(1 + t.choose(5) as i64)));
        // a stored last-contact time before or (clock not yet synchronised) after what the wall clock reads now
        let base = if t.chance(1, 3) { 1_800_000_000_000_000 } else { 1_600_000_000_000_000 };
        script.storage_init.push(("last_update_time".into(), SVal::I(base + t.choose(1000) as i64)));
    }
    (script, life)
}

pub fn case(t: &mut Tape, ctx: &CaseCtx) -> CaseResult {
    let (script, life) = gen_case(t);
    let max_crash_points = 1 + t.choose(400);
    let restart_wall = gen_restart_wall(t, &script);
    let restart = LifePlan { oneshot: false, checks: 1 + t.choose(2), crash_at: None, wall_at_start: restart_wall };
    // the uncrashed run, followed by a clean restart
    let h = run_history(script.clone(), &[life, restart]);
    let (mut nontrivial, mut classes) = check_history(&h)?;
    if restart_wall.is_some() {
        classes.push("restart_with_stepped_wall_clock");
    }
    let h = run_history(script.clone(), &[life]);
    let n = h.interactions.min(max_crash_points.max(60));
    // crash at every environment interaction
    let mut between = 0;
    for k in 1..=n {
        let mut l1 = life;
        l1.crash_at = Some(k);
        let h2 = run_history(script.clone(), &[l1, LifePlan { oneshot: false, checks: 1, crash_at: None, wall_at_start: restart_wall }]);
        CRASH_RUNS.fetch_add(1, Ordering::Relaxed);
        // did the crash fall between a storage write and its commit?
        if let Some(c) = h2.log.iter().position(|o| matches!(o, Op::Crash { .. })) {
            let pending = h2.log[..c].iter().rev().take_while(|o| !matches!(o, Op::Committed { .. })).any(|o| matches!(o, Op::Storage { op: SOp::SetInt | SOp::SetString | SOp::Remove, ok: true, .. }));
            if pending {
                between += 1;
                CRASH_BETWEEN_WRITES.fetch_add(1, Ordering::Relaxed);
            }
        }
        match check_history(&h2) {
            Ok((_, c2)) => {
                if c2.contains(&"restart") {
                    classes.push("crash_and_restart");
                }
            }
            Err(mut f) => {
                f.message = format!("[crash at interaction {k} of {}] {}", h.interactions, f.message);
                return Err(f);
            }
        }
    }
    if between > 0 {
        nontrivial = true;
        classes.push("crash_between_write_and_commit");
    }
    classes.sort();
    classes.dedup();
    Ok(CaseReport {
        key: hash_of(&format!("{:?}{:?}", script, life)),
        nontrivial,
        classes,
        sample: ctx.want_sample.then(|| json!({"life": format!("{life:?}"), "http_script": script_json(&script)["http"], "interactions": h.interactions, "crash_points_run": n, "crashes_between_write_and_commit": between})),
        ambiguous: false,
    })
}

pub fn run(mut run: Run) -> i32 {
    run.replay_committed(&case);
    run.shrink_ms = 20_000;
    run.random("histories x every crash point", &[], run.n(6_000, 80_000), 700, &case);
    run.note("crash_runs", json!(CRASH_RUNS.load(Ordering::Relaxed)));
    run.note("crash_runs_between_write_and_commit", json!(CRASH_BETWEEN_WRITES.load(Ordering::Relaxed)));
    run.finish(
        RULE,
        100,
        &[
            "crash points are environment interactions (the process can only die between instructions and state is only externalised at interactions)",
            "the harness storage implements the Storage contract literally: writes are cached until commit, commit is atomic, a crash discards the cache",
            "the simulated clock is monotone in these histories; it advances at every non-storage interaction",
            "storage itself works (write / commit failures are C14's domain)",
        ],
    )
}

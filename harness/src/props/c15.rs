//! C15 — Requests have exactly the Omaha v3 wire shape.
//!
//! Oracle: an independent encoder that builds the expected document as a `serde_json::Value` from the
//! operation sequence, following the statement and the Omaha v3 specification, not the serde attributes.

use crate::engine::*;
use crate::tape::Tape;
use crate::urlref::*;
use futures::executor::block_on;
use omaha_client::{
    common::{App, UserCounting},
    configuration::{Config, Updater},
    cup_ecdsa::StandardCupv2Handler,
    protocol::{
        request::{Event, EventErrorCode, EventResult, EventType, InstallSource, GUID, OS},
        Cohort,
    },
    request_builder::{RequestBuilder, RequestParams},
    version::Version,
};
use serde_json::{json, Map, Value};
use std::collections::HashMap;

pub const RULE: &str = "a case = configuration (updater name/version, OS fields with unicode and JSON-special characters, \
service URL from a grammar), request parameters (all 16 combinations), ids set/unset, and a sequence of <= 10 \
add_update_check / add_ping / add_event operations over a pool of app values in which ids repeat with differing cohorts; \
the built request is compared with an independently encoded expected document (parsed-body equality + raw-text checks: no \
duplicate keys, braced lower-case GUIDs, numeric codes) and expected method/URI/headers; build is called twice, the \
builder is then given up to three further operations and must send what a fresh builder given all operations sends. non-trivial = >= 2 distinct app ids with a repeated id carrying a different cohort, or >= 2 \
events; distinct by case hash.";

#[derive(Clone, Debug)]
struct AppSpec {
    id: String,
    version: Vec<u32>,
    fingerprint: Option<String>,
    cohort: [Option<String>; 3],
    days: Option<u32>,
    extras: Vec<(String, String)>,
}

#[derive(Clone, Debug)]
struct EventSpec {
    ty: usize,
    result: usize,
    error: Option<usize>,
    prev: Option<String>,
    next: Option<String>,
    dl: Option<u64>,
}

#[derive(Clone, Debug)]
enum Op {
    UpdateCheck(usize),
    Ping(usize),
    Event(usize, EventSpec),
}

const EVENT_TYPES: &[(u64, fn() -> EventType)] = &[
    (0, || EventType::Unknown),
    (1, || EventType::DownloadComplete),
    (2, || EventType::InstallComplete),
    (3, || EventType::UpdateComplete),
    (13, || EventType::UpdateDownloadStarted),
    (14, || EventType::UpdateDownloadFinished),
    (54, || EventType::RebootedAfterUpdate),
];
const EVENT_RESULTS: &[(u64, fn() -> EventResult)] = &[
    (0, || EventResult::Error),
    (1, || EventResult::Success),
    (2, || EventResult::SuccessAndRestartRequired),
    (3, || EventResult::SuccessAndAppRestartRequired),
    (4, || EventResult::Cancelled),
    (8, || EventResult::ErrorInSystemInstaller),
    (9, || EventResult::UpdateDeferred),
];
const EVENT_ERRORS: &[(i64, fn() -> EventErrorCode)] = &[
    (0, || EventErrorCode::ParseResponse),
    (1, || EventErrorCode::ConstructInstallPlan),
    (2, || EventErrorCode::Installation),
    (3, || EventErrorCode::DeniedByPolicy),
];

const PROTOCOL_KEYS: &[&str] = &["appid", "version", "fp", "cohort", "cohorthint", "cohortname", "updatecheck", "event", "ping"];

/// visible-ASCII text usable as an HTTP header value (updater name, app id)
pub fn header_safe(t: &mut Tape, max: usize) -> String {
    const A: &[char] = &['a', 'b', 'z', 'A', '0', '9', '-', '_', '.', '{', '}', '"', '\\', '/', ' ', ':', ',', '[', '~', '!'];
    let n = 1 + t.choose(max.max(1));
    let s: String = (0..n).map(|_| *t.pick(A)).collect();
    // header values may not start or end with whitespace on the wire; keep them trimmed
    let s = s.trim().to_string();
    if s.is_empty() {
        "a".into()
    } else {
        s
    }
}

fn gen_version(t: &mut Tape) -> Vec<u32> {
    let n = 1 + t.choose(4);
    (0..n).map(|_| t.u32_biased()).collect()
}
fn version_of(v: &[u32]) -> Version {
    match v.len() {
        1 => Version::from([v[0]]),
        2 => Version::from([v[0], v[1]]),
        3 => Version::from([v[0], v[1], v[2]]),
        _ => Version::from([v[0], v[1], v[2], v[3]]),
    }
}
fn four(v: &[u32]) -> String {
    let mut a = [0u32; 4];
    a[..v.len()].copy_from_slice(v);
    format!("{}.{}.{}.{}", a[0], a[1], a[2], a[3])
}

fn gen_cohort(t: &mut Tape) -> [Option<String>; 3] {
    let mut g = || match t.weighted(&[3, 1, 3]) {
        0 => None,
        1 => Some(String::new()),
        _ => Some(t.text(8)),
    };
    [g(), g(), g()]
}

fn gen_apps(t: &mut Tape) -> Vec<AppSpec> {
    let n = 1 + t.choose(4);
    let mut apps: Vec<AppSpec> = vec![];
    for i in 0..n {
        // repeat an earlier id with some probability: with a different cohort and, half the time, a different day
        // number, version and fingerprint too (the builder "only once adds the App ... afterward, it just marks" it)
        if i > 0 && t.chance(1, 3) {
            let j = t.choose(i);
            let mut a = apps[j].clone();
            a.cohort = gen_cohort(t);
            if t.flag() {
                a.days = t.option(|t| t.u32_biased());
                if t.flag() {
                    a.version = gen_version(t);
                    a.fingerprint = t.option(|t| t.text(10));
                }
            }
            // an extra named like a protocol attribute is only sound while the app leaves that attribute unset
            let set: Vec<&str> = [("fp", a.fingerprint.is_some()), ("cohort", a.cohort[0].is_some()), ("cohorthint", a.cohort[1].is_some()), ("cohortname", a.cohort[2].is_some())].iter().filter(|(_, s)| *s).map(|(k, _)| *k).collect();
            a.extras.retain(|(k, _)| !set.contains(&k.as_str()));
            apps.push(a);
            continue;
        }
        let mut id = header_safe(t, 12);
        while apps.iter().any(|a| a.id == id) {
            id.push('x');
        }
        let mut extras: Vec<(String, String)> = vec![];
        for _ in 0..t.choose(3) {
            let mut k = t.text(6);
            while PROTOCOL_KEYS.contains(&k.as_str()) || extras.iter().any(|(e, _)| *e == k) {
                k.push('_');
            }
            extras.push((k, t.text(8)));
        }
        let fingerprint = t.option(|t| t.text(10));
        let cohort = gen_cohort(t);
        // an extra field may be named like a protocol attribute the app does not set (fingerprint / cohort fields left
        // unset): the library then emits no typed attribute of that name and the extra goes out verbatim, once
        if t.chance(1, 6) {
            let free: Vec<&str> = [("fp", fingerprint.is_none()), ("cohort", cohort[0].is_none()), ("cohorthint", cohort[1].is_none()), ("cohortname", cohort[2].is_none())].iter().filter(|(_, unset)| *unset).map(|(k, _)| *k).collect();
            if !free.is_empty() {
                let k = free[t.choose(free.len())].to_string();
                if !extras.iter().any(|(e, _)| *e == k) {
                    extras.push((k, t.text(8)));
                }
            }
        }
        apps.push(AppSpec { id, version: gen_version(t), fingerprint, cohort, days: t.option(|t| t.u32_biased()), extras });
    }
    apps
}

fn build_app(a: &AppSpec) -> App {
    App::builder()
        .id(a.id.clone())
        .version(version_of(&a.version))
        .cohort(Cohort { id: a.cohort[0].clone(), hint: a.cohort[1].clone(), name: a.cohort[2].clone() })
        .user_counting(UserCounting::ClientRegulatedByDate(a.days))
        .extra_fields(a.extras.iter().cloned().collect::<HashMap<_, _>>())
        .build()
        .with_fp(a.fingerprint.clone())
}
trait WithFp {
    fn with_fp(self, fp: Option<String>) -> Self;
}
impl WithFp for App {
    fn with_fp(mut self, fp: Option<String>) -> Self {
        self.fingerprint = fp;
        self
    }
}

fn gen_event(t: &mut Tape) -> EventSpec {
    EventSpec {
        ty: t.choose(EVENT_TYPES.len()),
        result: t.choose(EVENT_RESULTS.len()),
        error: t.option(|t| t.choose(EVENT_ERRORS.len())),
        prev: t.option(|t| t.text(8)),
        next: t.option(|t| t.text(8)),
        dl: t.option(|t| t.u64_biased()),
    }
}
fn build_event(e: &EventSpec) -> Event {
    Event {
        event_type: EVENT_TYPES[e.ty].1(),
        event_result: EVENT_RESULTS[e.result].1(),
        errorcode: e.error.map(|i| EVENT_ERRORS[i].1()),
        previous_version: e.prev.clone(),
        next_version: e.next.clone(),
        download_time_ms: e.dl,
    }
}
fn expect_event(e: &EventSpec) -> Value {
    let mut m = Map::new();
    m.insert("eventtype".into(), json!(EVENT_TYPES[e.ty].0));
    m.insert("eventresult".into(), json!(EVENT_RESULTS[e.result].0));
    if let Some(i) = e.error {
        m.insert("errorcode".into(), json!(EVENT_ERRORS[i].0));
    }
    if let Some(p) = &e.prev {
        m.insert("previousversion".into(), json!(p));
    }
    if let Some(n) = &e.next {
        m.insert("nextversion".into(), json!(n));
    }
    if let Some(d) = e.dl {
        m.insert("download_time_ms".into(), json!(d));
    }
    Value::Object(m)
}

/// Detects duplicate keys anywhere in a JSON text.
pub fn has_duplicate_keys(text: &[u8]) -> bool {
    use serde::de::{Deserialize, Deserializer, MapAccess, SeqAccess, Visitor};
    struct Dup(bool);
    impl<'de> Deserialize<'de> for Dup {
        fn deserialize<D: Deserializer<'de>>(d: D) -> Result<Self, D::Error> {
            struct V;
            impl<'de> Visitor<'de> for V {
                type Value = Dup;
                fn expecting(&self, f: &mut std::fmt::Formatter) -> std::fmt::Result {
                    f.write_str("any json")
                }
                fn visit_bool<E>(self, _: bool) -> Result<Dup, E> { Ok(Dup(false)) }
                fn visit_i64<E>(self, _: i64) -> Result<Dup, E> { Ok(Dup(false)) }
                fn visit_u64<E>(self, _: u64) -> Result<Dup, E> { Ok(Dup(false)) }
                fn visit_f64<E>(self, _: f64) -> Result<Dup, E> { Ok(Dup(false)) }
                fn visit_str<E>(self, _: &str) -> Result<Dup, E> { Ok(Dup(false)) }
                fn visit_unit<E>(self) -> Result<Dup, E> { Ok(Dup(false)) }
                fn visit_seq<A: SeqAccess<'de>>(self, mut a: A) -> Result<Dup, A::Error> {
                    let mut d = false;
                    while let Some(x) = a.next_element::<Dup>()? {
                        d |= x.0;
                    }
                    Ok(Dup(d))
                }
                fn visit_map<A: MapAccess<'de>>(self, mut a: A) -> Result<Dup, A::Error> {
                    let mut d = false;
                    let mut seen = std::collections::HashSet::new();
                    while let Some(k) = a.next_key::<String>()? {
                        if !seen.insert(k) {
                            d = true;
                        }
                        d |= a.next_value::<Dup>()?.0;
                    }
                    Ok(Dup(d))
                }
            }
            d.deserialize_any(V)
        }
    }
    serde_json::from_slice::<Dup>(text).map(|d| d.0).unwrap_or(true)
}

pub fn is_braced_guid(s: &str) -> bool {
    let b = s.as_bytes();
    if b.len() != 38 || b[0] != b'{' || b[37] != b'}' {
        return false;
    }
    b[1..37].iter().enumerate().all(|(i, c)| match i {
        8 | 13 | 18 | 23 => *c == b'-',
        _ => c.is_ascii_digit() || (b'a'..=b'f').contains(c),
    })
}

struct Built {
    method: String,
    uri: String,
    headers: Vec<(String, Vec<u8>)>,
    body: Vec<u8>,
}
fn take(req: http::Request<hyper::Body>) -> Built {
    let (p, b) = req.into_parts();
    let body = block_on(hyper::body::to_bytes(b)).expect("body").to_vec();
    Built {
        method: p.method.to_string(),
        uri: p.uri.to_string(),
        headers: p.headers.iter().map(|(k, v)| (k.as_str().to_string(), v.as_bytes().to_vec())).collect(),
        body,
    }
}

pub fn case(t: &mut Tape, ctx: &CaseCtx) -> CaseResult {
    // sizes first, so that short tapes still produce operations
    let nops = t.choose(11);
    let op_draws: Vec<(u32, u32)> = (0..nops).map(|_| (t.raw(), t.raw())).collect();
    // configuration
    let name = header_safe(t, 10);
    let uver = gen_version(t);
    let os = [t.text(8), t.text(8), t.text(6), t.text(6)];
    let url = gen_url(t);
    let params = RequestParams {
        source: if t.flag() { InstallSource::OnDemand } else { InstallSource::ScheduledTask },
        use_configured_proxies: t.flag(),
        disable_updates: t.flag(),
        offer_update_if_same_version: t.flag(),
    };
    let set_request_id = t.flag();
    let set_session_id = t.flag();
    let apps = gen_apps(t);
    let ops: Vec<Op> = op_draws
        .iter()
        .map(|(x, y)| {
            let a = ((*x as u64 * apps.len() as u64) >> 32) as usize;
            match ((*y as u64 * 10) >> 32) as usize {
                0..=2 => Op::UpdateCheck(a),
                3..=5 => Op::Ping(a),
                _ => Op::Event(a, gen_event(t)),
            }
        })
        .collect();
    // operations added after the builder has already been built from (drawn last: older tapes decode to none)
    let nops2 = t.choose(4);
    let ops2: Vec<Op> = (0..nops2)
        .map(|_| {
            let a = t.choose(apps.len());
            match t.choose(3) {
                0 => Op::UpdateCheck(a),
                1 => Op::Ping(a),
                _ => Op::Event(a, gen_event(t)),
            }
        })
        .collect();
    // an id / updater name that cannot be an HTTP header value (drawn last: older tapes decode to none)
    let unrepresentable = if t.chance(1, 12) { Some((t.flag(), *t.pick(&['\n', '\r', '\0', '\u{7f}', '\u{1}']))) } else { None };
    let case_json = json!({"updater": name, "updater_version": uver, "os": os, "service_url": url.text,
        "params": format!("{params:?}"), "apps": format!("{apps:?}"), "ops": format!("{ops:?}"), "ops_after_first_build": format!("{ops2:?}"), "ids": [set_request_id, set_session_id]});
    let bad = |sig: &str, msg: String| Err(Failure::new(sig, msg, case_json.clone()));

    if url.text.parse::<http::Uri>().is_err() {
        return Ok(CaseReport { key: hash_of(&url.text), classes: vec!["uri_rejected_by_http_crate"], ..Default::default() });
    }
    let config = Config {
        updater: Updater { name: name.clone(), version: version_of(&uver) },
        os: OS { platform: os[0].clone(), version: os[1].clone(), service_pack: os[2].clone(), arch: os[3].clone() },
        service_url: url.text.clone(),
        omaha_public_keys: None,
    };
    if let Some((in_name, ch)) = unrepresentable {
        // Either no request is built at all, or the built request carries both headers: never a request without them
        let mut cfg2 = config.clone();
        let mut apps2 = apps.clone();
        let first = ops.iter().map(|o| match o { Op::UpdateCheck(a) | Op::Ping(a) | Op::Event(a, _) => *a }).next();
        if in_name {
            cfg2.updater.name = format!("{}{ch}x", cfg2.updater.name);
        } else if let Some(a) = first {
            let old = apps2[a].id.clone();
            for x in apps2.iter_mut().filter(|x| x.id == old) {
                x.id = format!("{old}{ch}x");
            }
        }
        let built2: Vec<App> = apps2.iter().map(build_app).collect();
        let mut rb2 = RequestBuilder::new(&cfg2, &params);
        for op in &ops {
            rb2 = match op {
                Op::UpdateCheck(a) => rb2.add_update_check(&built2[*a]),
                Op::Ping(a) => rb2.add_ping(&built2[*a]),
                Op::Event(a, e) => rb2.add_event(&built2[*a], build_event(e)),
            };
        }
        let applied = in_name || first.is_some();
        return match rb2.build(None::<&StandardCupv2Handler>) {
            Err(_) => Ok(CaseReport { key: hash_of(&case_json.to_string()), classes: vec!["unrepresentable_header_value_no_request_built"], nontrivial: applied, ..Default::default() }),
            Ok((req, _)) => {
                let b = take(req);
                let has = |n: &str| b.headers.iter().any(|(k, _)| k.eq_ignore_ascii_case(n));
                if applied && !(has("x-goog-update-updater") && (first.is_none() || has("x-goog-update-appid"))) {
                    return bad("built-without-required-header", format!("a request was built for {} containing {ch:?}, but it lacks the header that carries it: headers {:?}", if in_name { "an updater name" } else { "a first app id" }, b.headers.iter().map(|(k, _)| k.clone()).collect::<Vec<_>>()));
                }
                Ok(CaseReport { key: hash_of(&case_json.to_string()), classes: vec!["unrepresentable_header_value_built"], ..Default::default() })
            }
        };
    }
    let built_apps: Vec<App> = apps.iter().map(build_app).collect();
    let mut rb = RequestBuilder::new(&config, &params);
    for op in &ops {
        rb = match op {
            Op::UpdateCheck(a) => rb.add_update_check(&built_apps[*a]),
            Op::Ping(a) => rb.add_ping(&built_apps[*a]),
            Op::Event(a, e) => rb.add_event(&built_apps[*a], build_event(e)),
        };
    }
    let rid = GUID::new();
    let sid = GUID::new();
    if set_request_id {
        rb = rb.request_id(rid.clone());
    }
    if set_session_id {
        rb = rb.session_id(sid.clone());
    }
    let (r1, m1) = match rb.build(None::<&StandardCupv2Handler>) {
        Ok(x) => x,
        Err(e) => return bad("build-error", format!("build failed for a valid configuration: {e:?}")),
    };
    let (r2, _) = match rb.build(None::<&StandardCupv2Handler>) {
        Ok(x) => x,
        Err(e) => return bad("build-twice-error", format!("second build failed: {e:?}")),
    };
    if m1.is_some() {
        return bad("metadata-without-cup", "request metadata returned without a CUP handler".into());
    }
    let (b1, b2) = (take(r1), take(r2));
    if b1.method != b2.method || b1.uri != b2.uri || b1.headers != b2.headers || b1.body != b2.body {
        return bad("build-not-repeatable", "building twice produced different requests".into());
    }

    // ---- expected document, from the statement
    let mut order: Vec<String> = vec![]; // first-insertion order of ids
    struct Acc {
        first: usize,
        uc: bool,
        ping: bool,
        events: Vec<Value>,
    }
    let mut acc: HashMap<String, Acc> = HashMap::new();
    for op in &ops {
        let a = match op {
            Op::UpdateCheck(a) | Op::Ping(a) | Op::Event(a, _) => *a,
        };
        let id = apps[a].id.clone();
        let e = acc.entry(id.clone()).or_insert_with(|| {
            order.push(id.clone());
            Acc { first: a, uc: false, ping: false, events: vec![] }
        });
        match op {
            Op::UpdateCheck(_) => e.uc = true,
            Op::Ping(_) => e.ping = true,
            Op::Event(_, ev) => e.events.push(expect_event(ev)),
        }
    }
    let mut exp_apps = vec![];
    for id in &order {
        let e = &acc[id];
        let a = &apps[e.first];
        let mut m = Map::new();
        m.insert("appid".into(), json!(a.id));
        m.insert("version".into(), json!(four(&a.version)));
        if let Some(fp) = &a.fingerprint {
            m.insert("fp".into(), json!(fp));
        }
        for (k, v) in ["cohort", "cohorthint", "cohortname"].iter().zip(&a.cohort) {
            if let Some(v) = v {
                m.insert(k.to_string(), json!(v));
            }
        }
        if e.uc {
            let mut u = Map::new();
            if params.disable_updates {
                u.insert("updatedisabled".into(), json!(true));
            }
            if params.offer_update_if_same_version {
                u.insert("sameversionupdate".into(), json!(true));
            }
            m.insert("updatecheck".into(), Value::Object(u));
        }
        if !e.events.is_empty() {
            m.insert("event".into(), Value::Array(e.events.clone()));
        }
        if e.ping {
            let mut p = Map::new();
            if let Some(d) = a.days {
                p.insert("ad".into(), json!(d));
                p.insert("rd".into(), json!(d));
            }
            m.insert("ping".into(), Value::Object(p));
        }
        for (k, v) in &a.extras {
            m.insert(k.clone(), json!(v));
        }
        exp_apps.push(Value::Object(m));
    }
    let mut req = Map::new();
    req.insert("protocol".into(), json!("3.0"));
    req.insert("updater".into(), json!(name));
    req.insert("updaterversion".into(), json!(four(&uver)));
    req.insert("installsource".into(), json!(if params.source == InstallSource::OnDemand { "ondemand" } else { "scheduledtask" }));
    req.insert("ismachine".into(), json!(true));
    req.insert("os".into(), json!({"platform": os[0], "version": os[1], "sp": os[2], "arch": os[3]}));
    req.insert("app".into(), Value::Array(exp_apps));

    // ---- compare body
    let got: Value = match serde_json::from_slice(&b1.body) {
        Ok(v) => v,
        Err(e) => return bad("body-not-json", format!("body is not JSON: {e}")),
    };
    if has_duplicate_keys(&b1.body) {
        return bad("body-duplicate-keys", format!("body contains duplicate keys: {}", String::from_utf8_lossy(&b1.body)));
    }
    let mut got_req = match got.get("request").and_then(|r| r.as_object()) {
        Some(r) if got.as_object().map(|o| o.len()) == Some(1) => r.clone(),
        _ => return bad("body-wrapper", "body is not {\"request\": {...}}".into()),
    };
    // ids: shape + equality with the id given (through Debug, the only public view)
    for (key, set, g) in [("requestid", set_request_id, &rid), ("sessionid", set_session_id, &sid)] {
        match (got_req.remove(key), set) {
            (None, false) => {}
            (Some(Value::String(s)), true) => {
                let dbg = format!("{g:?}");
                if !is_braced_guid(&s) || !dbg.contains(&s[1..37]) {
                    return bad("guid-shape", format!("{key} = {s:?} is not the braced lower-case form of {dbg}"));
                }
            }
            (other, _) => return bad("guid-presence", format!("{key}: got {other:?}, id set = {set}")),
        }
    }
    if Value::Object(got_req.clone()) != Value::Object(req.clone()) {
        return bad(
            "body-mismatch",
            format!("body differs from the Omaha v3 shape.\n got: {}\nwant: {}", Value::Object(got_req), Value::Object(req)),
        );
    }
    // ---- method / uri / headers
    if b1.method != "POST" {
        return bad("method", format!("method {}", b1.method));
    }
    match split_url(&b1.uri) {
        Some(p) if p.scheme == url.parts.scheme && p.authority == url.parts.authority && same_path(&p.path, &url.parts.path) && p.query == url.parts.query => {}
        other => return bad("uri", format!("request URI {} ({other:?}) is not the service URL {}", b1.uri, url.text)),
    }
    let mut want_headers: Vec<(String, Vec<u8>)> = vec![
        ("content-type".into(), b"application/json".to_vec()),
        ("x-goog-update-updater".into(), name.clone().into_bytes()),
        ("x-goog-update-interactivity".into(), if params.source == InstallSource::OnDemand { b"fg".to_vec() } else { b"bg".to_vec() }),
    ];
    if let Some(first) = order.first() {
        want_headers.push(("x-goog-update-appid".into(), first.clone().into_bytes()));
    }
    let mut gh = b1.headers.clone();
    gh.sort();
    want_headers.sort();
    if gh != want_headers {
        let show = |h: &Vec<(String, Vec<u8>)>| h.iter().map(|(k, v)| format!("{k}: {}", String::from_utf8_lossy(v))).collect::<Vec<_>>();
        return bad("headers", format!("headers {:?}, expected {:?}", show(&gh), show(&want_headers)));
    }
    // ---- the builder is still usable and unaltered: extending it afterwards yields the old apps first
    let extra = App::builder().id("zz-extra").version([7]).build();
    fn apply_op<'a>(rb: RequestBuilder<'a>, op: &Op, built_apps: &[App]) -> RequestBuilder<'a> {
        match op {
            Op::UpdateCheck(a) => rb.add_update_check(&built_apps[*a]),
            Op::Ping(a) => rb.add_ping(&built_apps[*a]),
            Op::Event(a, e) => rb.add_event(&built_apps[*a], build_event(e)),
        }
    }
    let apply = |rb, op: &Op| apply_op(rb, op, &built_apps);
    let mut rbx = rb;
    for op in &ops2 {
        rbx = apply(rbx, op);
    }
    // (a new app only when no other operation follows the builds: the later operations alone must show up as well)
    if ops2.is_empty() {
        rbx = rbx.add_ping(&extra);
    }
    let (r3, _) = match rbx.build(None::<&StandardCupv2Handler>) {
        Ok(x) => x,
        Err(e) => return bad("build-after-extend", format!("{e:?}")),
    };
    let b3 = take(r3);
    let v3: Value = serde_json::from_slice(&b3.body).unwrap_or(Value::Null);
    let apps3 = v3["request"]["app"].as_array().cloned().unwrap_or_default();
    let old = got["request"]["app"].as_array().cloned().unwrap_or_default();
    if ops2.is_empty() {
        let extended_ok = if order.iter().any(|i| i == "zz-extra") { apps3.len() == old.len() } else { apps3.len() == old.len() + 1 && apps3[..old.len()] == old[..] };
        if !extended_ok {
            return bad("builder-altered", "extending the builder after build() did not preserve the earlier apps".into());
        }
    }
    // building must not have altered the builder: a builder that was built from twice and then extended yields the
    // request of a fresh builder given the same operations
    let mut fresh = RequestBuilder::new(&config, &params);
    for op in ops.iter().chain(&ops2) {
        fresh = apply(fresh, op);
    }
    if set_request_id {
        fresh = fresh.request_id(rid.clone());
    }
    if set_session_id {
        fresh = fresh.session_id(sid.clone());
    }
    if ops2.is_empty() {
        fresh = fresh.add_ping(&extra);
    }
    let (rf, _) = match fresh.build(None::<&StandardCupv2Handler>) {
        Ok(x) => x,
        Err(e) => return bad("build-error", format!("build failed for a valid configuration: {e:?}")),
    };
    let bf = take(rf);
    if b3.method != bf.method || b3.uri != bf.uri || b3.headers != bf.headers || b3.body != bf.body {
        return bad(
            "built-builder-differs-from-fresh",
            format!("a builder that had been built from and was then given more operations sends {}; a fresh builder given all the operations sends {}", String::from_utf8_lossy(&b3.body), String::from_utf8_lossy(&bf.body)),
        );
    }

    let distinct_ids = order.len();
    let repeated_diff_cohort = apps.iter().enumerate().any(|(i, a)| apps[..i].iter().any(|b| b.id == a.id && b.cohort != a.cohort))
        && ops.iter().filter_map(|o| match o { Op::UpdateCheck(a) | Op::Ping(a) | Op::Event(a, _) => Some(*a) }).collect::<std::collections::HashSet<_>>().len() > distinct_ids;
    let n_events = ops.iter().filter(|o| matches!(o, Op::Event(..))).count();
    let mut classes = url.classes.clone();
    if repeated_diff_cohort {
        classes.push("repeated_id_other_cohort");
    }
    if n_events >= 2 {
        classes.push("multi_event");
    }
    if !ops2.is_empty() {
        classes.push("operations_added_after_a_build");
    }
    if order.is_empty() {
        classes.push("no_apps");
    }
    Ok(CaseReport {
        key: hash_of(&case_json.to_string()),
        nontrivial: (distinct_ids >= 2 && repeated_diff_cohort) || n_events >= 2,
        classes,
        sample: ctx.want_sample.then(|| json!({"case": case_json, "body": String::from_utf8_lossy(&b1.body)})),
        ambiguous: false,
    })
}

pub fn run(mut run: Run) -> i32 {
    run.replay_committed(&case);
    run.random("builder op sequences", &[], run.n(300_000, 6_000_000), 200, &case);
    run.finish(
        RULE,
        500,
        &[
            "updater names and app ids are generated as visible ASCII (they become HTTP header values); unicode goes into OS fields, cohorts, fingerprints, versions of events and extra fields",
            "extra-field keys never collide with protocol keys (documented misuse)",
            "for a repeated id everything taken from the App (cohort, version, fingerprint, day number, extra fields) is that of the first insertion: the statement names the cohort, the doc comments of add_update_check / add_ping / add_event say the App is added only once and afterwards only marked",
            "GUID values are only visible through Debug; shape and equality are checked through it",
        ],
    )
}

//! C19 — Times survive persistence and compare consistently.
//!
//! Oracle: independent i128 nanosecond arithmetic.  A wall time is generated as a signed
//! nanosecond offset from the epoch, a monotonic time as a signed offset from a per-process base
//! `Instant`; every library result is compared with the value computed on the offsets.

use crate::engine::*;
use crate::tape::Tape;
use futures::executor::block_on;
use omaha_client::{
    storage::{MemStorage, Storage, StorageExt},
    time::{
        system_time_conversion::{checked_system_time_to_micros_from_epoch, micros_from_epoch_to_system_time},
        ComplexTime, PartialComplexTime,
    },
};
use serde_json::json;
use std::{
    sync::OnceLock,
    time::{Duration, Instant, SystemTime},
};

pub const RULE: &str = "modes: (0) i64 microseconds m: to_micros(from_micros(m)) == Some(m) (also through storage and \
PartialComplexTime), (1) wall times at ns granularity on both sides of the epoch and beyond the i64-µs range: to_micros \
== trunc-toward-epoch computed in i128, None iff outside i64; set_time/get_time round trip, (2) \
truncate_submicrosecond_walltime == round trip, idempotent, mono untouched, (3) add/sub/assign/complete_with/destructure/\
conversions keep exactly the components present, (4) is_after_or_eq_any == exists component present on both sides that \
has been reached. non-trivial = pre-epoch, or non-zero sub-µs remainder, or an i64/range boundary value; distinct by \
input hash. boundary grids for modes 0-2 are enumerated exhaustively.";

fn base() -> Instant {
    static B: OnceLock<Instant> = OnceLock::new();
    *B.get_or_init(|| Instant::now() + Duration::from_secs(4_000_000_000))
}

const NS: i128 = 1_000_000_000;

/// SystemTime from signed ns offset; None if not representable on the platform
fn wall_from_ns(ns: i128) -> Option<SystemTime> {
    let (neg, mag) = (ns < 0, ns.unsigned_abs());
    let secs = u64::try_from(mag / NS as u128).ok()?;
    let d = Duration::new(secs, (mag % NS as u128) as u32);
    if neg {
        SystemTime::UNIX_EPOCH.checked_sub(d)
    } else {
        SystemTime::UNIX_EPOCH.checked_add(d)
    }
}
fn ns_of_wall(t: SystemTime) -> i128 {
    match t.duration_since(SystemTime::UNIX_EPOCH) {
        Ok(d) => d.as_nanos() as i128,
        Err(e) => -(e.duration().as_nanos() as i128),
    }
}
fn mono_from_ns(ns: i64) -> Instant {
    if ns >= 0 {
        base() + Duration::from_nanos(ns as u64)
    } else {
        base() - Duration::from_nanos(ns.unsigned_abs())
    }
}
fn ns_of_mono(i: Instant) -> i128 {
    if i >= base() {
        (i - base()).as_nanos() as i128
    } else {
        -((base() - i).as_nanos() as i128)
    }
}
/// truncation toward the epoch to whole microseconds, in i128
fn trunc_us(ns: i128) -> i128 {
    ns / 1000 // Rust integer division truncates toward zero
}

pub const MICROS_GRID: &[i64] = &[
    i64::MIN, i64::MIN + 1, i64::MIN + 2, -1_000_001, -1_000_000, -999_999, -1001, -1000, -999, -2, -1, 0, 1, 2, 999, 1000, 1001,
    999_999, 1_000_000, 1_000_001, i64::MAX - 1, i64::MAX,
];

fn gen_wall_ns(t: &mut Tape) -> i128 {
    match t.weighted(&[3, 3, 2, 2, 1]) {
        0 => {
            // around the epoch, ns granularity
            t.range(0, 4_000_000) as i128 - 2_000_000
        }
        1 => {
            // whole µs (from an i64) plus a remainder in {0,1,999,..} on either side
            let m = t.i64_biased() as i128;
            let r = *t.pick(&[0i128, 1, 999, 500, -1, -999, -500]);
            m * 1000 + r
        }
        2 => {
            // realistic "now"-like times
            let secs = t.range(0, 4_000_000_000) as i128;
            let ns = t.range(0, 999_999_999) as i128;
            let v = secs * NS + ns;
            if t.flag() {
                -v
            } else {
                v
            }
        }
        3 => {
            // around the i64 microsecond limits
            let lim = if t.flag() { i64::MAX as i128 * 1000 } else { i64::MIN as i128 * 1000 };
            lim + t.range(0, 4000) as i128 - 2000
        }
        _ => {
            // far outside the representable µs range but inside SystemTime's
            let secs = t.range(0, 1 << 61) as i128;
            let v = secs * NS + t.range(0, 999_999_999) as i128;
            if t.flag() {
                -v
            } else {
                v
            }
        }
    }
}

fn gen_mono_ns(t: &mut Tape) -> i64 {
    match t.choose(3) {
        0 => t.range(0, 2000) as i64 - 1000,
        1 => t.range(0, 2_000_000_000_000) as i64 - 1_000_000_000_000,
        _ => t.range(0, 2_000_000_000_000_000_000) as i64 - 1_000_000_000_000_000_000,
    }
}

fn gen_dur(t: &mut Tape) -> Duration {
    match t.choose(6) {
        0 => Duration::from_nanos(t.range(0, 2000)),
        1 => Duration::from_micros(t.u32_biased() as u64),
        2 => Duration::new(t.range(0, 1_000_000_000), t.range(0, 999_999_999) as u32),
        3 => Duration::from_secs(t.range(0, 100)),
        // beyond what fits in i64 microseconds (the storage range) yet far inside the range of the platform clocks
        // (i64 seconds): around the i64-microsecond boundary, and anywhere up to 4e18 s
        4 => Duration::new(9_223_372_036_854 + t.range(0, 3), t.range(0, 999_999_999) as u32),
        _ => Duration::new(t.range(9_223_372_036_855, 4_000_000_000_000_000_000), t.range(0, 999_999_999) as u32),
    }
}

fn check_micros(m: i64, want_sample: bool) -> CaseResult {
    let case = json!({"micros": m});
    let t = micros_from_epoch_to_system_time(m);
    // independent: the produced time is exactly m µs from the epoch
    if ns_of_wall(t) != m as i128 * 1000 {
        return Err(Failure::new("from-micros-value", format!("from_micros({m}) is {} ns from the epoch", ns_of_wall(t)), case));
    }
    let back = checked_system_time_to_micros_from_epoch(t);
    if back != Some(m) {
        return Err(Failure::new("micros-roundtrip", format!("to_micros(from_micros({m})) = {back:?}, expected Some({m})"), case));
    }
    let p = PartialComplexTime::from_micros_since_epoch(m);
    if p.checked_to_micros_since_epoch() != Some(m) {
        return Err(Failure::new("partial-micros-roundtrip", format!("PartialComplexTime micros round trip of {m} = {:?}", p.checked_to_micros_since_epoch()), case));
    }
    if !matches!(p, PartialComplexTime::Wall(w) if w == t) {
        return Err(Failure::new("partial-from-micros", format!("from_micros_since_epoch({m}) = {p:?}"), case));
    }
    // through storage: a stored int is read back as that instant, and storing the instant stores the int
    let mut st = MemStorage::new();
    block_on(st.set_int("k", m)).unwrap();
    let got = block_on(st.get_time("k"));
    if got != Some(t) {
        return Err(Failure::new("storage-get-time", format!("get_time of stored {m} = {got:?}"), case));
    }
    block_on(st.set_time("k2", t)).unwrap();
    let got = block_on(st.get_int("k2"));
    if got != Some(m) {
        return Err(Failure::new("storage-set-time", format!("set_time(from_micros({m})) stored {got:?}"), case));
    }
    let boundary = MICROS_GRID.contains(&m);
    Ok(CaseReport {
        key: hash_of(&("m", m)),
        nontrivial: m < 0 || boundary,
        classes: vec!["micros", if m < 0 { "pre_epoch" } else { "post_epoch" }],
        sample: want_sample.then(|| json!({"mode": "micros", "m": m})),
        ambiguous: false,
    })
}

fn check_wall(ns: i128, want_sample: bool) -> CaseResult {
    let case = json!({"wall_ns_from_epoch": ns.to_string()});
    let Some(t) = wall_from_ns(ns) else {
        return Ok(CaseReport { key: hash_of(&("w-unrep", ns)), ..Default::default() });
    };
    let want_us = trunc_us(ns);
    let want = i64::try_from(want_us).ok();
    let got = checked_system_time_to_micros_from_epoch(t);
    if got != want {
        return Err(Failure::new("to-micros", format!("to_micros(epoch {ns:+} ns) = {got:?}, truncation toward the epoch gives {want:?}"), case));
    }
    let mut st = MemStorage::new();
    // pre-existing value must not survive an unrepresentable store
    block_on(st.set_int("k", 42)).unwrap();
    block_on(st.set_time("k", t)).unwrap();
    let reloaded = block_on(st.get_time("k"));
    match want {
        Some(us) => {
            let Some(r) = reloaded else {
                return Err(Failure::new("store-reload-none", format!("stored time epoch {ns:+} ns reloaded as None"), case));
            };
            if ns_of_wall(r) != us as i128 * 1000 {
                return Err(Failure::new("store-reload", format!("stored epoch {ns:+} ns, reloaded {} ns, expected {} ns", ns_of_wall(r), us as i128 * 1000), case));
            }
            // reloading is a fixpoint of storing
            block_on(st.set_time("k", r)).unwrap();
            if block_on(st.get_time("k")) != Some(r) {
                return Err(Failure::new("store-reload-fixpoint", "second store/reload changed the instant".to_string(), case));
            }
        }
        None => {
            if reloaded.is_some() {
                return Err(Failure::new("store-unrepresentable", format!("unrepresentable time epoch {ns:+} ns reloaded as {reloaded:?}"), case));
            }
        }
    }
    let rem = ns % 1000 != 0;
    let near_limit = want.is_none() || want_us.unsigned_abs() > (i64::MAX as u128 - 10);
    Ok(CaseReport {
        key: hash_of(&("w", ns)),
        nontrivial: ns < 0 || rem || near_limit,
        classes: vec![
            "wall",
            if ns < 0 { "pre_epoch" } else { "post_epoch" },
            if rem { "sub_us_remainder" } else { "whole_us" },
            if want.is_none() { "outside_i64" } else { "inside_i64" },
        ],
        sample: want_sample.then(|| json!({"mode": "wall", "ns_from_epoch": ns.to_string(), "micros": want})),
        ambiguous: false,
    })
}

fn check_truncate(ns: i128, mono_ns: i64, want_sample: bool) -> CaseResult {
    let case = json!({"wall_ns_from_epoch": ns.to_string(), "mono_ns": mono_ns});
    // keep clear of the platform limits so the helper's own subtraction cannot overflow
    if ns.unsigned_abs() > (1u128 << 62) * NS as u128 {
        return Ok(CaseReport { key: hash_of(&("tr-skip", ns)), ..Default::default() });
    }
    let Some(w) = wall_from_ns(ns) else {
        return Ok(CaseReport { key: hash_of(&("tr-unrep", ns)), ..Default::default() });
    };
    let c = ComplexTime { wall: w, mono: mono_from_ns(mono_ns) };
    let tr = c.truncate_submicrosecond_walltime();
    if tr.mono != c.mono {
        return Err(Failure::new("truncate-mono", "truncation changed the monotonic component".to_string(), case));
    }
    let in_range = i64::try_from(trunc_us(ns)).is_ok();
    if in_range {
        let rt = micros_from_epoch_to_system_time(checked_system_time_to_micros_from_epoch(w).unwrap_or(0));
        if tr.wall != rt || ns_of_wall(tr.wall) != trunc_us(ns) * 1000 {
            return Err(Failure::new(
                "truncate-vs-roundtrip",
                format!("truncate(epoch {ns:+} ns) = {} ns, storage round trip = {} ns", ns_of_wall(tr.wall), ns_of_wall(rt)),
                case,
            ));
        }
    }
    let again = tr.truncate_submicrosecond_walltime();
    if again != tr {
        return Err(Failure::new(
            "truncate-idempotent",
            format!("truncate not idempotent at epoch {ns:+} ns: {} then {}", ns_of_wall(tr.wall), ns_of_wall(again.wall)),
            case,
        ));
    }
    let rem = ns % 1000 != 0;
    Ok(CaseReport {
        key: hash_of(&("tr", ns)),
        nontrivial: ns < 0 || rem,
        classes: vec!["truncate", if ns < 0 { "pre_epoch" } else { "post_epoch" }, if rem { "sub_us_remainder" } else { "whole_us" }],
        sample: want_sample.then(|| json!({"mode": "truncate", "ns_from_epoch": ns.to_string(), "truncated_ns": ns_of_wall(tr.wall).to_string()})),
        ambiguous: false,
    })
}

#[derive(Clone, Copy, Debug)]
enum P {
    Wall(i128),
    Mono(i64),
    Complex(i128, i64),
}
impl P {
    fn build(self) -> Option<PartialComplexTime> {
        Some(match self {
            P::Wall(w) => PartialComplexTime::Wall(wall_from_ns(w)?),
            P::Mono(m) => PartialComplexTime::Monotonic(mono_from_ns(m)),
            P::Complex(w, m) => PartialComplexTime::Complex(ComplexTime { wall: wall_from_ns(w)?, mono: mono_from_ns(m) }),
        })
    }
    fn parts(self) -> (Option<i128>, Option<i128>) {
        match self {
            P::Wall(w) => (Some(w), None),
            P::Mono(m) => (None, Some(m as i128)),
            P::Complex(w, m) => (Some(w), Some(m as i128)),
        }
    }
}
fn gen_p(t: &mut Tape) -> P {
    // moderate magnitudes: the quantifier excludes overflow of the platform clock types
    let w = match t.choose(3) {
        0 => t.range(0, 4000) as i128 - 2000,
        1 => t.range(0, 4_000_000_000_000_000_000) as i128 - 2_000_000_000_000_000_000,
        _ => (t.i64_biased() / 4) as i128,
    };
    let m = gen_mono_ns(t) / 2;
    match t.choose(3) {
        0 => P::Wall(w),
        1 => P::Mono(m),
        _ => P::Complex(w, m),
    }
}
fn parts_of(p: PartialComplexTime) -> (Option<i128>, Option<i128>) {
    let (w, m) = p.destructure();
    (w.map(ns_of_wall), m.map(ns_of_mono))
}

fn check_algebra(p: P, d: Duration, c: (i128, i64), want_sample: bool) -> CaseResult {
    let case = json!({"partial": format!("{p:?}"), "dur_ns": d.as_nanos().to_string(), "complete_with": format!("{c:?}")});
    let Some(pt) = p.build() else {
        return Ok(CaseReport { key: hash_of(&("alg-unrep", format!("{p:?}"))), ..Default::default() });
    };
    let dn = d.as_nanos() as i128;
    let (pw, pm) = p.parts();
    let bad = |sig: &str, msg: String| Err(Failure::new(sig, msg, case.clone()));
    if parts_of(pt) != (pw, pm) {
        return bad("destructure", format!("destructure({p:?}) = {:?}", parts_of(pt)));
    }
    if pt.checked_to_system_time().map(ns_of_wall) != pw || pt.checked_to_instant().map(ns_of_mono) != pm {
        return bad("checked-to", format!("checked_to_* of {p:?} lost or invented a component"));
    }
    let want_us = pw.map(trunc_us).and_then(|u| i64::try_from(u).ok());
    if pt.checked_to_micros_since_epoch() != want_us {
        return bad("partial-to-micros", format!("checked_to_micros_since_epoch({p:?}) = {:?}, expected {want_us:?}", pt.checked_to_micros_since_epoch()));
    }
    // add / sub keep exactly the components present
    let add = pt + d;
    if parts_of(add) != (pw.map(|w| w + dn), pm.map(|m| m + dn)) {
        return bad("partial-add", format!("({p:?} + {d:?}) = {:?}", parts_of(add)));
    }
    let sub = pt - d;
    if parts_of(sub) != (pw.map(|w| w - dn), pm.map(|m| m - dn)) {
        return bad("partial-sub", format!("({p:?} - {d:?}) = {:?}", parts_of(sub)));
    }
    let mut a2 = pt;
    a2 += d;
    let mut s2 = pt;
    s2 -= d;
    if a2 != add || s2 != sub {
        return bad("partial-assign", "+= / -= disagree with + / -".to_string());
    }
    if (add - d) != pt {
        return bad("partial-add-sub-inverse", "(p + d) - d != p".to_string());
    }
    // complete_with
    let Some(cw) = wall_from_ns(c.0) else {
        return Ok(CaseReport { key: hash_of(&("alg-unrep2", c.0)), ..Default::default() });
    };
    let ct = ComplexTime { wall: cw, mono: mono_from_ns(c.1) };
    let done = pt.complete_with(ct);
    let want = (pw.unwrap_or(c.0), pm.unwrap_or(c.1 as i128));
    if (ns_of_wall(done.wall), ns_of_mono(done.mono)) != want {
        return bad("complete-with", format!("{p:?}.complete_with({c:?}) = ({}, {})", ns_of_wall(done.wall), ns_of_mono(done.mono)));
    }
    // complete time arithmetic
    let cadd = ct + d;
    let csub = ct - d;
    if (ns_of_wall(cadd.wall), ns_of_mono(cadd.mono)) != (c.0 + dn, c.1 as i128 + dn)
        || (ns_of_wall(csub.wall), ns_of_mono(csub.mono)) != (c.0 - dn, c.1 as i128 - dn)
    {
        return bad("complex-add-sub", format!("ComplexTime {c:?} +/- {d:?} wrong"));
    }
    let mut ca = ct;
    ca += d;
    let mut cs = ct;
    cs -= d;
    if ca != cadd || cs != csub {
        return bad("complex-assign", "ComplexTime += / -= disagree with + / -".to_string());
    }
    // conversions
    let conv_ok = PartialComplexTime::from(ct) == PartialComplexTime::Complex(ct)
        && Option::<PartialComplexTime>::from(ct) == Some(PartialComplexTime::Complex(ct))
        && PartialComplexTime::from(ct.wall) == PartialComplexTime::Wall(ct.wall)
        && PartialComplexTime::from(ct.mono) == PartialComplexTime::Monotonic(ct.mono)
        && PartialComplexTime::from((ct.wall, ct.mono)) == PartialComplexTime::Complex(ct)
        && ComplexTime::from((ct.wall, ct.mono)) == ct
        && SystemTime::from(ct) == ct.wall
        && Instant::from(ct) == ct.mono;
    if !conv_ok {
        return bad("conversions", "a From conversion lost or changed a component".to_string());
    }
    Ok(CaseReport {
        key: hash_of(&("alg", format!("{p:?}"), d, c)),
        nontrivial: pw.map(|w| w < 0).unwrap_or(false) || !matches!(p, P::Complex(..)),
        classes: vec!["algebra", match p { P::Wall(_) => "wall_only", P::Mono(_) => "mono_only", P::Complex(..) => "complete" }],
        sample: want_sample.then(|| case.clone()),
        ambiguous: false,
    })
}

fn check_after(s: (i128, i64), o: P, want_sample: bool) -> CaseResult {
    let case = json!({"self": format!("{s:?}"), "other": format!("{o:?}")});
    let (Some(sw), Some(ot)) = (wall_from_ns(s.0), o.build()) else {
        return Ok(CaseReport { key: hash_of(&("after-unrep", s.0)), ..Default::default() });
    };
    let me = ComplexTime { wall: sw, mono: mono_from_ns(s.1) };
    let (ow, om) = o.parts();
    let want = ow.map(|w| s.0 >= w).unwrap_or(false) || om.map(|m| s.1 as i128 >= m).unwrap_or(false);
    let got = me.is_after_or_eq_any(ot);
    if got != want {
        return Err(Failure::new("after-or-eq-any", format!("{s:?}.is_after_or_eq_any({o:?}) = {got}, expected {want}"), case));
    }
    let eq_edge = ow == Some(s.0) || om == Some(s.1 as i128);
    let split = matches!(o, P::Complex(w, m) if (s.0 >= w) != (s.1 >= m));
    Ok(CaseReport {
        key: hash_of(&("after", s, format!("{o:?}"))),
        nontrivial: eq_edge || split || !matches!(o, P::Complex(..)),
        classes: vec!["after", if split { "components_disagree" } else { "components_agree" }, if eq_edge { "equal_edge" } else { "strict" }],
        sample: want_sample.then(|| json!({"mode": "after", "self": format!("{s:?}"), "other": format!("{o:?}"), "result": got})),
        ambiguous: false,
    })
}

pub fn case(t: &mut Tape, ctx: &CaseCtx) -> CaseResult {
    match t.choose(7) {
        0 => {
            let m = t.i64_biased();
            check_micros(m, ctx.want_sample)
        }
        1 => {
            let ns = gen_wall_ns(t);
            check_wall(ns, ctx.want_sample)
        }
        2 => {
            let ns = gen_wall_ns(t);
            let m = gen_mono_ns(t);
            check_truncate(ns, m, ctx.want_sample)
        }
        3 => {
            let p = gen_p(t);
            let d = gen_dur(t);
            let c = (t.range(0, 4_000_000_000_000_000_000) as i128 - 2_000_000_000_000_000_000, gen_mono_ns(t) / 2);
            check_algebra(p, d, c, ctx.want_sample)
        }
        4 => {
            let s = (t.range(0, 2000) as i128 - 1000, t.range(0, 2000) as i64 - 1000);
            // other built near self so that equality edges and split verdicts are common
            let o = match t.choose(3) {
                0 => P::Wall(s.0 + t.range(0, 4) as i128 - 2),
                1 => P::Mono(s.1 + t.range(0, 4) as i64 - 2),
                _ => P::Complex(s.0 + t.range(0, 4) as i128 - 2, s.1 + t.range(0, 4) as i64 - 2),
            };
            check_after(s, o, ctx.want_sample)
        }
        5 => {
            // exhaustive grid over micros boundaries
            let m = MICROS_GRID[t.choose(MICROS_GRID.len())];
            check_micros(m, ctx.want_sample)
        }
        _ => {
            // exhaustive grid: boundary micros x sub-µs remainder, wall + truncate
            let m = MICROS_GRID[t.choose(MICROS_GRID.len())] as i128;
            let r = [0i128, 1, 2, 499, 500, 999, -1, -2, -500, -999][t.choose(10)];
            let ns = m * 1000 + r;
            check_wall(ns, ctx.want_sample)?;
            check_truncate(ns, 0, ctx.want_sample)
        }
    }
}

/// regression inputs of the defects found so far (DESIGN.md 9.3 F1, F2; seeded change C19)
fn regressions() -> Vec<(String, Box<dyn Fn() -> CaseResult>)> {
    let mut v: Vec<(String, Box<dyn Fn() -> CaseResult>)> = vec![];
    for m in [i64::MIN, i64::MIN + 1, -1, -999_999, -1_000_000, -500_000, 0, 1, i64::MAX] {
        v.push((format!("micros round trip {m}"), Box::new(move || check_micros(m, false))));
    }
    for ns in [-1i128, -999, -1000, -1001, -1_000_000, -999_999_999, 1, 999, 1000] {
        v.push((format!("wall epoch{ns:+}ns"), Box::new(move || check_wall(ns, false))));
        v.push((format!("truncate epoch{ns:+}ns"), Box::new(move || check_truncate(ns, 0, false))));
    }
    v
}

pub fn run(mut run: Run) -> i32 {
    run.replay_committed(&case);
    run.fixed("regression inputs (F1, F2, seeded C19)", regressions());
    run.enumerate("grid: micros boundaries", &[Tape::encode_choice(5, 7)], &[MICROS_GRID.len()], &case);
    run.enumerate("grid: boundary micros x sub-us remainder (wall + truncate)", &[Tape::encode_choice(6, 7)], &[MICROS_GRID.len(), 10], &case);
    let n = run.n(2_000_000, 40_000_000);
    run.random("micros", &[Tape::encode_choice(0, 7)], n / 4, 8, &case);
    run.random("wall", &[Tape::encode_choice(1, 7)], n / 4, 12, &case);
    run.random("truncate", &[Tape::encode_choice(2, 7)], n / 4, 16, &case);
    run.random("algebra", &[Tape::encode_choice(3, 7)], n / 8, 24, &case);
    run.random("after_or_eq_any", &[Tape::encode_choice(4, 7)], n / 8, 12, &case);
    run.finish(
        RULE,
        1000,
        &[
            "SystemTime / Instant / Duration arithmetic of std is trusted",
            "durations are generated so that the platform clock types do not overflow (excluded by the quantifier)",
            "MemStorage is used as the Storage behind StorageExt::get_time / set_time",
        ],
    )
}

//! One module per property: generator profile + oracle + evidence.
use crate::engine::{CaseCtx, CaseResult, Run};
use crate::tape::Tape;

pub mod c01;
pub mod c02;
pub mod c03;
pub mod c04;
pub mod c05;
pub mod c06;
pub mod c07;
pub mod c08;
pub mod c09;
pub mod c10;
pub mod c11;
pub mod c12;
pub mod c13;
pub mod c14;
pub mod c15;
pub mod flow;
pub mod sched;
pub mod wire;
pub mod c16;
pub mod c17;
pub mod c18;
pub mod c19;
pub mod c20;

pub struct Prop {
    pub id: &'static str,
    pub level: &'static str,
    pub case: fn(&mut Tape, &CaseCtx) -> CaseResult,
    pub run: fn(Run) -> i32,
    /// how many times `--replay` executes the case (schedule ties depend on a thread-local tie-break)
    pub replay_reps: usize,
}

pub fn all() -> Vec<Prop> {
    vec![
        Prop { id: "C01", level: "exploration", case: c01::case, run: c01::run, replay_reps: 1 },
        Prop { id: "C02", level: "exploration", case: c02::case, run: c02::run, replay_reps: 4 },
        Prop { id: "C03", level: "exploration", case: c03::case, run: c03::run, replay_reps: 2 },
        Prop { id: "C04", level: "exploration", case: c04::case, run: c04::run, replay_reps: 4 },
        Prop { id: "C05", level: "exploration", case: c05::case, run: c05::run, replay_reps: 8 },
        Prop { id: "C06", level: "exploration", case: c06::case, run: c06::run, replay_reps: 4 },
        Prop { id: "C07", level: "exploration", case: c07::case, run: c07::run, replay_reps: 4 },
        Prop { id: "C08", level: "fault_enumeration", case: c08::case, run: c08::run, replay_reps: 3 },
        Prop { id: "C09", level: "exploration", case: c09::case, run: c09::run, replay_reps: 4 },
        Prop { id: "C10", level: "exploration", case: c10::case, run: c10::run, replay_reps: 4 },
        Prop { id: "C11", level: "exploration", case: c11::case, run: c11::run, replay_reps: 16 },
        Prop { id: "C12", level: "exploration", case: c12::case, run: c12::run, replay_reps: 16 },
        Prop { id: "C13", level: "exploration", case: c13::case, run: c13::run, replay_reps: 16 },
        Prop { id: "C14", level: "fault_enumeration", case: c14::case, run: c14::run, replay_reps: 3 },
        Prop { id: "C15", level: "exploration", case: c15::case, run: c15::run, replay_reps: 1 },
        Prop { id: "C16", level: "exploration", case: c16::case, run: c16::run, replay_reps: 1 },
        Prop { id: "C17", level: "exploration", case: c17::case, run: c17::run, replay_reps: 2 },
        Prop { id: "C18", level: "fault_enumeration", case: c18::case, run: c18::run, replay_reps: 3 },
        Prop { id: "C19", level: "exploration", case: c19::case, run: c19::run, replay_reps: 1 },
        Prop { id: "C20", level: "exploration", case: c20::case, run: c20::run, replay_reps: 1 },
    ]
}

/// (property id, case function) of the history-based properties, for the `fuzz_sim` target.
pub fn fuzz_sim_table() -> Vec<(&'static str, fn(&mut Tape, &CaseCtx) -> CaseResult)> {
    vec![
        ("C02", c02::case as fn(&mut Tape, &CaseCtx) -> CaseResult),
        ("C04", c04::case),
        ("C05", c05::case),
        ("C06", c06::case),
        ("C07", c07::case),
        ("C09", c09::case),
        ("C10", c10::case),
        ("C11", c11::case),
        ("C12", c12::case),
        ("C13", c13::case),
        ("C14", c14::case),
        ("C03", c03::case),
    ]
}

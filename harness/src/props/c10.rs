//! C10 — Every update outcome is reported to Omaha exactly once.

use super::flow::*;
use crate::engine::*;
use crate::model::*;
use crate::sim::{gen::*, types::*};
use crate::tape::Tape;
use serde_json::json;

pub const RULE: &str = "a case = 1-3 checks over a generated script biased toward update offers (multi-app responses in any \
order, unknown ids, manifest version present or not), all policy decisions, all per-app installer result vectors, and every \
delivery outcome (ok / transport / HTTP error / forged) of each individual report. Oracle: the reference model's expected \
report list (parse-error for all apps; construct-plan / deferred / denied for the known offered apps; download-started, \
per-app result events, update-complete for exactly the installed apps) compared request by request: same session id as \
the update check, fresh request id, numeric codes, previousversion = the app's four-part version, nextversion = offered \
manifest version; one HTTP request per report; OmahaEventLost per undelivered event; and a TWIN run in which every report \
is delivered must announce the same states, result and later reports. non-trivial = >= 2 offered apps with different \
installer results, or an unknown offered app, or a lost report; distinct by script hash.";

pub fn profile() -> Profile {
    // no X-Retry-After in authentic responses: the poll interval then never changes, so the all-delivered twin
    // differs from the original run in nothing but the delivery of the reports
    Profile { max_apps: 3, offer_w: 7, outcome_w: [12, 2, 1, 1, 3, 2, 2], cup: (1, 3), retry_after: (0, 1), ..Default::default() }
}

fn event_matches(got: &EventJson, want: &EventExpect) -> bool {
    got.event_type == want.event_type
        && got.event_result == want.event_result
        && got.errorcode == want.errorcode
        && got.previous_version.as_deref() == Some(want.previous_version.as_str())
        && got.next_version == want.next_version
}

pub fn check_history(h: &Hist, twin: bool) -> Result<(bool, Vec<&'static str>, Vec<usize>), Failure> {
    let evals = evaluate(h);
    let mut nontrivial = false;
    let mut classes: Vec<&'static str> = vec![];
    let mut lost_http: Vec<usize> = vec![];
    let mut seen_ids: Vec<String> = vec![];
    for ev in &evals {
        let e = &ev.expect;
        let seg = &ev.seg;
        let around = Some((seg.start.saturating_sub(2), (seg.end + 2).min(h.log.len())));
        // model-free part (also judged when the reference walk could not follow the check): whatever outcome the
        // delivered result names for a known app, the matching event for that app is on the wire within the check
        if let Some(ResultView::Ok(actions)) = seg.result_at.and_then(|r| if let Op::Took(EventView::Result(res)) = &h.log[r] { Some(res.clone()) } else { None }) {
            let reqs = seg_requests(h, seg);
            let on_wire = |app: &str, f: &dyn Fn(&EventJson) -> bool| reqs.iter().any(|(_, v, _, _)| v.kind == ReqKind::Events && v.apps.iter().any(|a| a.id == app && a.events.iter().any(|e| f(e))));
            for a in &actions {
                if !ev.apps.iter().any(|k| k.id == a.id) {
                    continue; // unknown to the app set: not reported
                }
                // only apps the response offered an update to have an outcome of their own
                let offered = e.doc.as_ref().map(|d| d.apps.iter().any(|x| x.id == a.id && matches!(&x.uc, Some(u) if u.status == "ok"))).unwrap_or(false);
                if !offered {
                    continue;
                }
                let (what, ok) = match a.action {
                    ActionView::DeferredByPolicy => ("deferred (event result 9)", on_wire(&a.id, &|e| e.event_type == 3 && e.event_result == 9)),
                    ActionView::DeniedByPolicy => ("denied by policy (error code 3)", on_wire(&a.id, &|e| e.event_type == 3 && e.event_result == 0 && e.errorcode == Some(3))),
                    ActionView::Updated => ("update complete (type 3, result 1)", on_wire(&a.id, &|e| e.event_type == 3 && e.event_result == 1)),
                    ActionView::InstallError => ("installation error (type 3, result 0)", on_wire(&a.id, &|e| e.event_type == 3 && e.event_result == 0)),
                    _ => continue,
                };
                if !ok {
                    return Err(failure("outcome-not-reported", format!("the result says app {:?} was {:?}, but no '{what}' event for it was put on the wire in this check", a.id, a.action), h, around));
                }
            }
        }
        // model-free, too: "exactly once" - within one check no (app, event type, result, error code) goes on the wire
        // twice (download started 13/1, the per-app outcome 14/1 | 3/9 | 3/0+code, update complete 3/1 and the
        // check-level deferred / denied / plan-error events are all distinct, and event reports are never retried)
        {
            let reqs = seg_requests(h, seg);
            let ids_unique = ev.apps.iter().enumerate().all(|(i, a)| !ev.apps[..i].iter().any(|b| b.id == a.id));
            if ids_unique {
                let mut seen: Vec<(String, i64, i64, Option<i64>)> = vec![];
                for (_, v, _, _) in reqs.iter().filter(|(_, v, _, _)| v.kind == ReqKind::Events) {
                    for a in &v.apps {
                        for evj in &a.events {
                            let key = (a.id.clone(), evj.event_type, evj.event_result, evj.errorcode);
                            if seen.contains(&key) {
                                return Err(failure(
                                    "event-reported-twice",
                                    format!("the event (type {}, result {}, error code {:?}) for app {:?} was put on the wire twice in one check", evj.event_type, evj.event_result, evj.errorcode, a.id),
                                    h,
                                    around,
                                ));
                            }
                            seen.push(key);
                        }
                    }
                }
            }
        }
        if e.poll_ambiguous || !ev.poll_known || !e.complete {
            continue;
        }
        let reqs = seg_requests(h, seg);
        // the session of the update check = the session of the attempt that was answered (the last one)
        let session = reqs.iter().rev().find(|(_, v, _, _)| v.kind == ReqKind::UpdateCheck).and_then(|(_, v, _, _)| v.session.clone());
        let mut actual = reqs.iter().filter(|(_, v, _, _)| v.kind != ReqKind::UpdateCheck).peekable();
        let mut expected_lost: Vec<(&'static str, Vec<EventExpect>, bool)> = vec![];
        let mut empty_lost: Vec<&'static str> = vec![];
        for want in e.requests.iter() {
            let ReqExpect::Report { name, events, per_app, delivered } = want else { continue };
            if events.is_empty() {
                // a report that concerns no known app: sending an empty one is optional
                if let Some((n, v, _, _)) = actual.peek() {
                    if v.apps.iter().all(|a| a.events.is_empty()) {
                        if delivered == &Some(false) {
                            lost_http.push(*n);
                            // an empty report that was sent and lost: counting it as one lost event (or none) is accepted
                            empty_lost.push(*name);
                        }
                        actual.next();
                    }
                }
                continue;
            }
            let Some((n, v, _, _)) = actual.next() else {
                return Err(failure("report-missing", format!("the '{name}' report ({} events) was never sent", events.len()), h, around));
            };
            if v.kind != ReqKind::Events {
                return Err(failure("report-kind", format!("expected the '{name}' event report, got a {:?} request", v.kind), h, around));
            }
            if v.session != session || session.is_none() {
                return Err(failure("report-session", format!("the '{name}' report uses session {:?}, the update check used {session:?}", v.session), h, around));
            }
            if v.install_source != if ev.params.on_demand { "ondemand" } else { "scheduledtask" } {
                return Err(failure("report-install-source", format!("the '{name}' report was sent with installsource {:?}", v.install_source), h, around));
            }
            // events per app, order of apps not asserted
            let mut got: Vec<(String, EventJson)> = v.apps.iter().flat_map(|a| a.events.iter().map(move |e| (a.id.clone(), e.clone()))).collect();
            for w in events {
                match got.iter().position(|(id, g)| *id == w.app_id && event_matches(g, w)) {
                    Some(i) => {
                        got.remove(i);
                    }
                    None => {
                        return Err(failure(
                            &format!("report-event-missing:{name}"),
                            format!("the '{name}' report lacks the event {w:?}; it carries {:?}", v.apps.iter().map(|a| (&a.id, &a.events)).collect::<Vec<_>>()),
                            h,
                            around,
                        ))
                    }
                }
            }
            if !got.is_empty() {
                return Err(failure(&format!("report-event-extra:{name}"), format!("the '{name}' report carries unexpected events {got:?}"), h, around));
            }
            // each app's version on the wire is the app's four-part version
            for a in &v.apps {
                if let Some(app) = ev.apps.iter().find(|x| x.id == a.id) {
                    if a.version != app.version {
                        return Err(failure("report-app-version", format!("app {} reported with version {}, it is {}", a.id, a.version, app.version), h, around));
                    }
                }
            }
            if *delivered == Some(false) {
                lost_http.push(*n);
                expected_lost.push((name, events.clone(), *per_app));
                nontrivial = true;
                classes.push("lost_report");
            }
        }
        if let Some((_, v, _, _)) = actual.next() {
            return Err(failure("report-unexpected", format!("an unexpected extra request was sent: {:?} with apps {:?}", v.kind, v.apps.iter().map(|a| (&a.id, &a.events)).collect::<Vec<_>>()), h, around));
        }
        // fresh request ids
        for (_, v, _, _) in &reqs {
            if let Some(id) = &v.request_id {
                if seen_ids.contains(id) {
                    return Err(failure("request-id-reused", format!("request id {id} used twice"), h, around));
                }
                seen_ids.push(id.clone());
            } else {
                return Err(failure("request-id-missing", "request without request id".to_string(), h, around));
            }
        }
        // lost-event metric: once per event of an undelivered per-app report; once (or once per app) for a single-event report
        let lost_metrics: Vec<&EventJson> = h.log[seg.start..seg.end].iter().filter_map(|o| if let Op::Metric(MetricView::EventLost(e)) = o { Some(e) } else { None }).collect();
        let (mut lo, mut hi) = (0usize, 0usize);
        for (_, events, per_app) in &expected_lost {
            if *per_app {
                lo += events.len();
                hi += events.len();
            } else {
                lo += 1;
                hi += events.len().max(1);
            }
        }
        hi += empty_lost.len();
        {
            if lost_metrics.len() < lo || lost_metrics.len() > hi {
                return Err(failure("event-lost-metric-count", format!("{} OmahaEventLost metrics for undelivered reports {:?} (expected between {lo} and {hi})", lost_metrics.len(), expected_lost.iter().map(|(n, e, _)| (n, e.len())).collect::<Vec<_>>()), h, around));
            }
            // the lost events are of the right kind
            for m in &lost_metrics {
                if empty_lost.is_empty() && !expected_lost.iter().any(|(_, evs, _)| evs.iter().any(|w| w.event_type == m.event_type && w.event_result == m.event_result && w.errorcode == m.errorcode)) {
                    return Err(failure("event-lost-metric-kind", format!("OmahaEventLost({m:?}) matches no undelivered event"), h, around));
                }
            }
        }
        // classification
        if let Some(doc) = &e.doc {
            let offered: Vec<_> = doc.apps.iter().filter(|a| matches!(&a.uc, Some(u) if u.status == "ok")).collect();
            if offered.iter().any(|a| a.id.starts_with("unknown-")) {
                nontrivial = true;
                classes.push("unknown_offered_app");
            }
            if e.install_results.len() >= 2 && e.install_results.iter().any(|r| *r != e.install_results[0]) {
                nontrivial = true;
                classes.push("mixed_installer_results");
            }
            if offered.len() >= 2 {
                classes.push("multi_offered");
            }
        }
        if e.requests.iter().any(|r| matches!(r, ReqExpect::Report { .. })) {
            classes.push("has_reports");
        }
    }
    let _ = twin;
    classes.sort();
    classes.dedup();
    Ok((nontrivial, classes, lost_http))
}

/// states, results and reports of a history (what a lost report must not change)
fn outcome_projection(h: &Hist) -> Vec<String> {
    h.log
        .iter()
        .filter_map(|o| match o {
            Op::Took(EventView::State(s)) => Some(format!("state {s:?}")),
            Op::Took(EventView::Result(r)) => Some(format!("result {r:?}")),
            Op::Took(EventView::InstallerError(_)) => Some("installer-error".to_string()),
            Op::Http { view: Some(v), .. } if v.kind != ReqKind::UpdateCheck => Some(format!("report {:?}", v.apps.iter().map(|a| (a.id.clone(), a.events.iter().map(|e| (e.event_type, e.event_result, e.errorcode)).collect::<Vec<_>>())).collect::<Vec<_>>())),
            Op::Install { plan_id } => Some(format!("install {plan_id}")),
            Op::Reboot { .. } => Some("reboot".to_string()),
            _ => None,
        })
        .collect()
}

pub fn case(t: &mut Tape, ctx: &CaseCtx) -> CaseResult {
    let lives = vec![LifePlan { oneshot: t.chance(1, 6), checks: 1 + t.choose(3), crash_at: None, wall_at_start: None }];
    let mut script = gen_script(t, &profile());
    // reboot waits introduce pings and select! ties that are irrelevant here: keep reboots immediate
    script.reboot_allowed = vec![];
    if t.chance(1, 4) {
        // the installer records the new versions in the shared app set while the check is still running
        script.embedder_bumps_versions_at_install = true;
    }
    let h = run_history(script.clone(), &lives);
    let (nontrivial, mut classes, lost) = check_history(&h, false)?;
    if h.log.iter().any(|o| matches!(o, Op::EmbedderChangedApps)) {
        classes.push("app_versions_changed_during_the_install");
    }
    if !lost.is_empty() {
        // twin: the same script with every undelivered report delivered
        let mut twin = script.clone();
        for n in &lost {
            if let Some(slot) = twin.http.get_mut(*n) {
                *slot = HttpSpec::Resp(RespSpec { status: 200, retry_after: vec![], retry_after_name_case: 0, body: BodySpec::DefaultNoUpdate, auth: Auth::Authentic, prefix: false });
            }
        }
        let h2 = run_history(twin, &lives);
        let (a, b) = (outcome_projection(&h), outcome_projection(&h2));
        // only the part up to the end of the checks that had losses is comparable when a lost response carried a
        // poll interval (it may legitimately change LATER checks' retry behaviour): compare while no retry differs
        let retry_after_lost = lost.iter().any(|n| matches!(script.http.get(*n), Some(HttpSpec::Resp(r)) if !r.retry_after.is_empty() && matches!(r.auth, Auth::Authentic)));
        if a != b && !retry_after_lost {
            let first = a.iter().zip(&b).position(|(x, y)| x != y).unwrap_or(a.len().min(b.len()));
            return Err(failure(
                "lost-report-changed-outcome",
                format!("an undelivered report changed the outcome: with the loss the run continues with {:?}, with every report delivered {:?}", a.get(first), b.get(first)),
                &h,
                None,
            ));
        }
        classes.push("twin_compared");
    }
    Ok(CaseReport {
        key: hash_of(&format!("{:?}{:?}", h.script, lives)),
        nontrivial,
        classes,
        sample: ctx.want_sample.then(|| {
            json!({"http_script": script_json(&h.script)["http"], "installs": script_json(&h.script)["installs"], "can_start": h.script.can_start,
                "reports": h.log.iter().filter_map(|o| match o {
                    Op::Http { view: Some(v), .. } if v.kind != ReqKind::UpdateCheck => Some(format!("{:?}", v.apps.iter().map(|a| (a.id.clone(), a.events.clone())).collect::<Vec<_>>())),
                    Op::Metric(MetricView::EventLost(e)) => Some(format!("LOST {e:?}")),
                    _ => None }).take(12).collect::<Vec<_>>()})
        }),
        ambiguous: false,
    })
}

pub fn run(mut run: Run) -> i32 {
    run.replay_committed(&case);
    run.random("histories", &[], run.n(200_000, 2_000_000), 600, &case);
    run.finish(
        RULE,
        300,
        &[
            "order of apps inside one report is not asserted",
            "for a single-event report covering several apps, OmahaEventLost may be counted once or once per app",
            "a report that concerns no known app may or may not be sent",
            "download_time_ms is not part of the statement and is ignored",
            "reboots are allowed immediately in this profile (the reboot wait is C05/C11/C12 territory)",
        ],
    )
}

//! C06 — Retries are bounded, only for transient failures, and backed off.

use super::flow::*;
use crate::engine::*;
use crate::model::*;
use crate::respgen::{XApp, XResp, XUc};
use crate::sim::{gen::*, types::*};
use crate::tape::Tape;
use serde_json::json;
use std::sync::Mutex;
use std::time::Duration;

pub const RULE: &str = "mode 0 enumerates EXHAUSTIVELY all sequences of 3 per-attempt outcomes from the 13-letter alphabet \
{transport error, timeout, caller error, 3xx, 4xx, 5xx, 3xx/4xx/5xx with X-Retry-After, 2xx with X-Retry-After, forged, \
unparseable 200, success} x {no poll interval in force at start, one in force} (shorter sequences are prefixes: a final \
outcome ends the check); mode 1 = random histories with varying documents, event-report and ping delivery outcomes. \
Oracle: reference model: number of update-check requests, one backoff wait of 2^(k-1) s +/- 500 ms between attempts and \
none after the last, same session id and identical payload with pairwise distinct request ids, event reports sent exactly \
once, UpdateCheckResponseTime once per attempt with the attempt's success flag, RequestsPerCheck.count == attempts; plus \
a dispersion test over all first-retry waits of the run. non-trivial = a check with >= 1 failed attempt; distinct by script hash.";

static FIRST_WAITS: Mutex<Vec<u64>> = Mutex::new(Vec::new());

pub const ALPHABET: usize = 13;

fn outcome(i: usize, apps: &[AppSpec]) -> HttpSpec {
    let ok_doc = || {
        BodySpec::Doc(
            XResp {
                protocol: "3.0".into(),
                server: None,
                daystart: None,
                apps: apps
                    .iter()
                    .map(|a| XApp {
                        id: a.id.clone(),
                        status: "ok".into(),
                        cohort: [None, None, None],
                        ping: None,
                        uc: Some(XUc { status: "noupdate".into(), info: None, urls: None, manifest: None, extra: vec![] }),
                        events: None,
                        extra: vec![],
                    })
                    .collect(),
                junk: vec![],
            },
            0,
        )
    };
    let resp = |status: u16, ra: Option<&str>, body: BodySpec, auth: Auth| {
        HttpSpec::Resp(RespSpec { status, retry_after: ra.map(|s| vec![s.as_bytes().to_vec()]).unwrap_or_default(), retry_after_name_case: 0, body, auth, prefix: false })
    };
    match i {
        0 => HttpSpec::Transport,
        1 => HttpSpec::Timeout,
        2 => HttpSpec::UserError,
        3 => resp(302, None, BodySpec::Raw(RawBody::Empty), Auth::Authentic),
        4 => resp(404, None, BodySpec::Raw(RawBody::Empty), Auth::Authentic),
        5 => resp(503, None, BodySpec::Raw(RawBody::Empty), Auth::Authentic),
        6 => resp(302, Some("7"), BodySpec::Raw(RawBody::Empty), Auth::Authentic),
        7 => resp(429, Some("120"), BodySpec::Raw(RawBody::Empty), Auth::Authentic),
        8 => resp(503, Some("999999"), BodySpec::Raw(RawBody::Empty), Auth::Authentic),
        9 => resp(200, Some("30"), ok_doc(), Auth::Authentic),
        10 => resp(200, Some("30"), ok_doc(), Auth::OtherBody),
        11 => resp(200, None, BodySpec::Raw(RawBody::WrongShape(0)), Auth::Authentic),
        _ => resp(200, None, ok_doc(), Auth::Authentic),
    }
}

pub fn check_history(h: &Hist) -> Result<(bool, Vec<&'static str>), Failure> {
    let evals = evaluate(h);
    let mut nontrivial = false;
    let mut classes: Vec<&'static str> = vec![];
    let mut all_request_ids: Vec<String> = vec![];
    for ev in &evals {
        let e = &ev.expect;
        let seg = &ev.seg;
        let around = Some((seg.start.saturating_sub(2), (seg.end + 2).min(h.log.len())));
        if e.poll_ambiguous || !ev.poll_known {
            classes.push("ambiguous_poll");
            continue;
        }
        if !e.complete {
            continue;
        }
        let reqs = seg_requests(h, seg);
        let ucs: Vec<_> = reqs.iter().filter(|(_, v, _, _)| v.kind == ReqKind::UpdateCheck).collect();
        if ucs.len() as u32 != if e.construction_failure { 0 } else { e.attempts } {
            return Err(failure(
                "attempt-count",
                format!("{} update-check requests were sent; the outcomes {:?} (poll interval in force at start: {:?}) allow exactly {}", ucs.len(), e.attempt_success, ev.poll_at_start, e.attempts),
                h,
                around,
            ));
        }
        // backoff waits: exactly one per retry, inside the jitter window, none after the last attempt
        let waits: Vec<Duration> = h.log[seg.start..seg.end].iter().filter_map(|o| if let Op::TimerFor { dur, .. } = o { Some(*dur) } else { None }).collect();
        if waits.len() != e.backoffs.len() {
            return Err(failure("backoff-count", format!("{} backoff waits for {} retries ({waits:?})", waits.len(), e.backoffs.len()), h, around));
        }
        for (w, k) in waits.iter().zip(&e.backoffs) {
            let centre = 1000u64 << (k - 1);
            if *w < Duration::from_millis(centre - 500) || *w >= Duration::from_millis(centre + 500) {
                return Err(failure("backoff-window", format!("wait after failure #{k} was {w:?}, outside [{} ms, {} ms)", centre - 500, centre + 500), h, around));
            }
            if *k == 1 {
                lock(&FIRST_WAITS).push(w.as_millis() as u64);
            }
        }
        // the wait sits between the attempts
        let mut last_kind = 0; // 1 = UC request, 2 = wait
        for o in &h.log[seg.start..seg.end] {
            match o {
                Op::Http { view: Some(v), .. } if v.kind == ReqKind::UpdateCheck => {
                    if last_kind == 1 {
                        return Err(failure("retry-without-backoff", "two update-check attempts without a backoff wait in between".to_string(), h, around));
                    }
                    last_kind = 1;
                }
                Op::TimerFor { .. } => {
                    if last_kind != 1 {
                        return Err(failure("backoff-misplaced", "a backoff wait that does not follow an attempt".to_string(), h, around));
                    }
                    last_kind = 2;
                }
                _ => {}
            }
        }
        if last_kind == 2 {
            return Err(failure("backoff-after-last-attempt", "a backoff wait after the last attempt".to_string(), h, around));
        }
        // same session and payload, fresh request ids
        let strip = |body: &Vec<u8>| -> serde_json::Value {
            let mut v: serde_json::Value = serde_json::from_slice(body).unwrap_or_default();
            if let Some(r) = v.get_mut("request").and_then(|r| r.as_object_mut()) {
                r.remove("requestid");
            }
            v
        };
        for w in ucs.windows(2) {
            if w[0].1.session != w[1].1.session || w[0].1.session.is_none() {
                return Err(failure("session-changed-on-retry", format!("session ids {:?} / {:?}", w[0].1.session, w[1].1.session), h, around));
            }
            if strip(w[0].2) != strip(w[1].2) {
                return Err(failure("payload-changed-on-retry", "retry payload differs from the first attempt (beyond the request id)".to_string(), h, around));
            }
        }
        for (_, v, _, _) in &reqs {
            match &v.request_id {
                Some(id) => {
                    if all_request_ids.contains(id) {
                        return Err(failure("request-id-reused", format!("request id {id} used twice"), h, around));
                    }
                    all_request_ids.push(id.clone());
                }
                None => return Err(failure("request-id-missing", "request without a request id".to_string(), h, around)),
            }
        }
        // event reports: exactly once each (no retry): count of non-update-check requests == reports expected
        let reports_expected = e.requests.iter().filter(|r| matches!(r, ReqExpect::Report { .. })).count();
        let optional = e.requests.iter().filter(|r| matches!(r, ReqExpect::Report { events, .. } if events.is_empty())).count();
        let others = reqs.len() - ucs.len();
        if others > reports_expected || others + optional < reports_expected {
            return Err(failure("report-request-count", format!("{others} event-report requests, expected {reports_expected} (of which {optional} empty/optional)"), h, around));
        }
        // metrics account for exactly the attempts made
        let rt: Vec<bool> = h.log[seg.start..seg.end].iter().filter_map(|o| if let Op::Metric(MetricView::ResponseTime { successful, .. }) = o { Some(*successful) } else { None }).collect();
        if rt != e.attempt_success {
            return Err(failure("response-time-metric", format!("UpdateCheckResponseTime flags {rt:?}, attempts were {:?}", e.attempt_success), h, around));
        }
        // ... and each response time is that attempt's own duration (request issued -> answer delivered), not a
        // running total: exact, because the simulated clock only moves at environment interactions
        {
            let mut want: Vec<std::time::Duration> = vec![];
            let mut open: Option<(usize, i128)> = None;
            for (k, o) in h.log[seg.start..seg.end].iter().enumerate() {
                let i = seg.start + k;
                match o {
                    Op::Http { n, view: Some(v), .. } if v.kind == ReqKind::UpdateCheck => open = Some((*n, h.stamps[i.saturating_sub(1)].1)),
                    Op::HttpDone { n, .. } => {
                        if let Some((m, start)) = open {
                            if m == *n {
                                want.push(std::time::Duration::from_nanos((h.stamps[i].1 - start).max(0) as u64));
                                open = None;
                            }
                        }
                    }
                    _ => {}
                }
            }
            let got: Vec<std::time::Duration> = h.log[seg.start..seg.end].iter().filter_map(|o| if let Op::Metric(MetricView::ResponseTime { dur, .. }) = o { Some(*dur) } else { None }).collect();
            if got.len() == want.len() && got != want {
                return Err(failure(
                    "response-time-value",
                    format!("UpdateCheckResponseTime values {got:?}; each attempt took {want:?} (request issued -> answer delivered)"),
                    h,
                    around,
                ));
            }
        }
        let rpc: Vec<(u64, bool)> = h.log[seg.start..seg.end].iter().filter_map(|o| if let Op::Metric(MetricView::RequestsPerCheck { count, successful }) = o { Some((*count, *successful)) } else { None }).collect();
        if rpc != vec![(e.attempts as u64, e.got_body)] {
            return Err(failure("requests-per-check-metric", format!("RequestsPerCheck {rpc:?}, expected [({}, {})]", e.attempts, e.got_body), h, around));
        }
        if e.attempt_success.iter().any(|s| !s) {
            nontrivial = true;
            classes.push("failed_attempt");
        }
        if !e.backoffs.is_empty() {
            classes.push("retried");
        }
        if e.attempts == 3 {
            classes.push("three_attempts");
        }
        if e.forged_exchange {
            classes.push("forged");
        }
        if ev.poll_at_start.is_some() {
            classes.push("poll_in_force_at_start");
        }
        if e.poll_trace.len() >= 1 && e.attempt_success.len() > e.backoffs.len() && e.attempt_success.iter().filter(|s| !**s).count() > e.backoffs.len() {
            classes.push("retry_suppressed");
        }
    }
    // pings are sent exactly once: after a ping (whatever its outcome) the next ping needs a new wait, i.e. a new
    // compute_next_update_time call, in between
    let mut ping_since_wait = false;
    for (i, op) in h.log.iter().enumerate() {
        match op {
            Op::NextTime { .. } | Op::Build { .. } => ping_since_wait = false,
            Op::Http { view: Some(v), .. } if v.kind == ReqKind::Ping => {
                if ping_since_wait {
                    return Err(failure("ping-retried", "two ping requests without a new wait in between: a ping was retried".to_string(), h, Some((i.saturating_sub(10), i + 1))));
                }
                ping_since_wait = true;
                classes.push("ping");
            }
            _ => {}
        }
    }
    classes.sort();
    classes.dedup();
    Ok((nontrivial, classes))
}

pub fn case(t: &mut Tape, ctx: &CaseCtx) -> CaseResult {
    let mode = t.choose(2);
    let (script, lives) = if mode == 0 {
        let a = [t.choose(ALPHABET), t.choose(ALPHABET), t.choose(ALPHABET)];
        let poll = t.choose(2) == 1;
        let mut s = Script::default();
        s.apps = vec![AppSpec { id: "app0".into(), version: vec![1, 2], ..Default::default() }, AppSpec { id: "app1".into(), version: vec![3], ..Default::default() }];
        s.cup = Some(CupSpec { keys: vec![(7, 0), (8, 1)] });
        s.http = a.iter().map(|i| outcome(*i, &s.apps)).collect();
        if poll {
            s.storage_init.push(("server_dictated_poll_interval".into(), SVal::I(60_000_000)));
        }
        (s, vec![LifePlan::new(false, 1, None)])
    } else {
        let p = Profile { outcome_w: [6, 3, 2, 1, 5, 2, 2], retry_after: (1, 5), cup: (1, 2), junk_url: (1, 10), ..Default::default() };
        let lives = vec![LifePlan { oneshot: t.chance(1, 8), checks: 1 + t.choose(3), crash_at: None, wall_at_start: None }];
        let mut s = gen_script(t, &p);
        if t.chance(1, 3) {
            // reboot waits, so that pings (with failing outcomes) are on the wire too
            s.reboot_needed = vec![true; 3];
            s.reboot_allowed = vec![(false, false), (false, false), (false, false), (true, true)];
        }
        if t.chance(1, 4) {
            s.storage_init.push(("server_dictated_poll_interval".into(), SVal::I(*t.pick(&[0i64, 1, 5_000_000, 86_400_000_000]))));
        }
        if t.chance(1, 4) {
            // replies labelled with unauthenticated headers (Content-Type text/html ...): they change nothing
            s.content_type_mask = t.raw();
        }
        if t.chance(1, 4) {
            // the embedder switches channel while the machine sits in a wait (a backoff, typically)
            s.embedder_changes_apps_at_wait = Some(1 + t.choose(4));
        }
        (s, lives)
    };
    let h = run_history(script, &lives);
    let (nontrivial, mut classes) = check_history(&h)?;
    classes.push(if mode == 0 { "mode_enumerated_alphabet" } else { "mode_random" });
    if h.log.iter().any(|o| matches!(o, Op::EmbedderChangedApps)) {
        classes.push("embedder_changed_apps_during_a_wait");
    }
    Ok(CaseReport {
        key: hash_of(&format!("{:?}{:?}", h.script, lives)),
        nontrivial,
        classes,
        sample: ctx.want_sample.then(|| {
            json!({"http_script": script_json(&h.script)["http"], "poll_in_force_at_start": h.script.storage_init.iter().any(|(k, _)| k == "server_dictated_poll_interval"),
                "requests_and_waits": h.log.iter().filter_map(|o| match o {
                    Op::Http { view: Some(v), .. } => Some(format!("request {:?} session={:?} id={:?}", v.kind, v.session, v.request_id)),
                    Op::TimerFor { dur, .. } => Some(format!("wait_for {dur:?}")),
                    Op::HttpDone { answer, .. } => Some(match answer { HttpAnswer::Response { status, authentic, retry_after, .. } => format!("  -> {status} authentic={authentic} retry-after={}", retry_after.len()), a => format!("  -> {a:?}") }),
                    _ => None }).take(30).collect::<Vec<_>>()})
        }),
        ambiguous: false,
    })
}

/// dispersion of the randomised backoff over the whole run (library RNG is not seedable: statistical)
fn jitter_check(run: &mut Run) {
    let w = lock(&FIRST_WAITS).clone();
    let n = w.len();
    let distinct = w.iter().collect::<std::collections::HashSet<_>>().len();
    let lo = w.iter().filter(|x| **x < 1000).count();
    let (min, max) = (w.iter().min().copied().unwrap_or(0), w.iter().max().copied().unwrap_or(0));
    run.note("backoff_draws", json!({"first_retry_waits": n, "min_ms": min, "max_ms": max, "distinct": distinct, "below_1000ms": lo}));
    if n >= 200 && (distinct < 20 || lo == 0 || lo == n) {
        run.add_violation(
            "jitter",
            Failure::new(
                "backoff-not-randomised",
                format!("{n} first-retry waits: {distinct} distinct values, {lo} below 1000 ms, range {min}..{max} ms: the wait is not randomised over 2^(k-1) s +/- 500 ms"),
                json!({"waits_ms_sample": w.iter().take(40).collect::<Vec<_>>()}),
            ),
            vec![],
        );
    }
}

pub fn run(mut run: Run) -> i32 {
    run.replay_committed(&case);
    run.enumerate("attempt outcomes^3 x {poll interval in force at start}", &[Tape::encode_choice(0, 2)], &[ALPHABET, ALPHABET, ALPHABET, 2], &case);
    run.random("random histories", &[Tape::encode_choice(1, 2)], run.n(120_000, 1_200_000), 600, &case);
    jitter_check(&mut run);
    run.finish(
        RULE,
        500,
        &[
            "library backoff draws are not seedable (no hooks): the jitter is tested by window membership per draw and by dispersion over >= 200 draws (false-alarm probability < 1e-50)",
            "an event report that concerns no known app may or may not be sent",
            "pings: exactly-once = no two ping requests without a new wait (compute_next_update_time) in between",
        ],
    )
}

//! C07 — Server-dictated poll interval (X-Retry-After) is honoured.

use super::flow::*;
use crate::engine::*;
use crate::model::*;
use crate::sim::{gen::*, types::*};
use crate::tape::Tape;
use serde_json::json;
use std::time::Duration;

pub const RULE: &str = "a case = a history of 1-3 checks (with event reports and, in reboot waits, pings) whose responses carry \
X-Retry-After values from a grammar (digit strings of any length around 86400 / 2^32 / 2^64, leading zeros, signs, inner and \
outer spaces, empty, non-ASCII bytes, letters, duplicate headers, mixed header-name case) under any status 100-599, forged \
responses, failures without a response, followed by a second life (restart after k checks, or after a crash at a generated \
interaction). Oracle: a linear model of the interval: after every authenticated response min(N, 86400) s iff the value is \
a digits-only string with N <= u64::MAX, absent otherwise, unchanged otherwise; compared at every observation point \
(protocol_state argument of policy calls, ProtocolStateChange events, committed storage at every commit, first policy call \
after the restart); every change must be announced and committed before the next non-storage interaction. Values with a \
leading '+' and disagreeing duplicate headers are ambiguous: any consistent reading is accepted and then adopted. \
non-trivial = a response changed the interval, or carried a boundary / malformed value; distinct by script hash.";

pub fn profile() -> Profile {
    Profile { exotic_retry_after: true, retry_after: (2, 3), outcome_w: [8, 1, 1, 1, 6, 2, 2], cup: (1, 3), offer_w: 4, ..Default::default() }
}

fn in_reading(r: &PollReading, v: Option<Duration>) -> bool {
    match r {
        PollReading::Is(x) => *x == v,
        PollReading::OneOf(xs) => xs.contains(&v),
    }
}

pub fn check_history(h: &Hist) -> Result<(bool, Vec<&'static str>, u64), Failure> {
    let log = &h.log;
    let mut model = PollReading::Is(stored_poll(&h.script.storage_init.iter().cloned().collect()));
    let mut nontrivial = false;
    let mut classes: Vec<&'static str> = vec![];
    let mut ambiguous = 0u64;
    let observe = |model: &mut PollReading, got: Option<Duration>, what: &str, i: usize, h: &Hist| -> Result<(), Failure> {
        if !in_reading(model, got) {
            return Err(failure(
                &format!("poll-interval-wrong:{what}"),
                format!("{what} shows poll interval {got:?}; after the authenticated responses so far it must be {model:?}"),
                h,
                Some((i.saturating_sub(14), (i + 3).min(h.log.len()))),
            ));
        }
        *model = PollReading::Is(got);
        Ok(())
    };
    for (i, op) in log.iter().enumerate() {
        match op {
            Op::Build { .. } => {
                // a restarted machine starts from the stored value (harness-side decode of the committed map)
                model = PollReading::Is(stored_poll(&committed_at(log, i, &h.script)));
                if i > 0 {
                    classes.push("restart");
                }
            }
            Op::NextTime { state, .. } => observe(&mut model, state.poll, "protocol_state given to compute_next_update_time", i, h)?,
            Op::CheckAllowed { state, .. } => observe(&mut model, state.poll, "protocol_state given to update_check_allowed", i, h)?,
            Op::Took(EventView::Protocol(p)) => observe(&mut model, p.poll, "ProtocolStateChange event", i, h)?,
            Op::Committed { .. } => {
                let c = committed_at(log, i + 1, &h.script);
                observe(&mut model, stored_poll(&c), "committed storage", i, h)?;
            }
            Op::HttpDone { answer: HttpAnswer::Response { authentic: true, retry_after, status, .. }, n } => {
                let old = model.clone();
                let new = read_retry_after(retry_after);
                if matches!(new, PollReading::OneOf(_)) {
                    ambiguous += 1;
                    classes.push("ambiguous_value");
                }
                // class bookkeeping
                if !retry_after.is_empty() {
                    let v = &retry_after[0];
                    let digits = !v.is_empty() && v.iter().all(|b| b.is_ascii_digit());
                    classes.push(if digits { "digits_value" } else { "malformed_value" });
                    if digits && v.len() >= 10 {
                        classes.push("long_digit_string");
                        nontrivial = true;
                    }
                    if !digits {
                        nontrivial = true;
                    }
                    if retry_after.len() > 1 {
                        classes.push("duplicate_header");
                    }
                    if !(200..300).contains(status) {
                        classes.push("header_on_non_2xx");
                    }
                }
                let kind = log[..i].iter().rev().find_map(|o| if let Op::Http { n: m, view: Some(v), .. } = o { (m == n).then_some(v.kind) } else { None });
                match kind {
                    Some(ReqKind::Events) => classes.push("on_event_report"),
                    Some(ReqKind::Ping) => classes.push("on_ping"),
                    _ => {}
                }
                // a definite change must be announced and committed before the flow continues
                if let (PollReading::Is(o), PollReading::Is(nw)) = (&old, &new) {
                    if o != nw {
                        nontrivial = true;
                        classes.push("interval_changed");
                        let mut announced = false;
                        let mut committed = false;
                        for (k, next) in log[i + 1..].iter().enumerate() {
                            match next {
                                Op::Took(EventView::Protocol(p)) if p.poll == *nw => announced = true,
                                Op::Committed { .. } => {
                                    committed = stored_poll(&committed_at(log, i + 1 + k + 1, &h.script)) == *nw;
                                }
                                Op::Storage { .. } | Op::Took(_) | Op::Quiescent | Op::EmbedderHoldsStorage | Op::EmbedderHoldsAppSet => {}
                                Op::MachineDropped | Op::Crash { .. } => {
                                    announced = true;
                                    committed = true;
                                    break;
                                }
                                _ => break,
                            }
                            if announced && committed {
                                break;
                            }
                        }
                        if !announced || !committed {
                            return Err(failure(
                                "change-not-announced-or-committed",
                                format!("the poll interval changed from {o:?} to {nw:?} (status {status}) but the flow continued with announced={announced} committed={committed}"),
                                h,
                                Some((i.saturating_sub(3), (i + 14).min(log.len()))),
                            ));
                        }
                    }
                }
                model = new;
            }
            _ => {}
        }
    }
    classes.sort();
    classes.dedup();
    Ok((nontrivial, classes, ambiguous))
}

pub fn gen_lives(t: &mut Tape) -> Vec<LifePlan> {
    let first = LifePlan { oneshot: t.chance(1, 8), checks: 1 + t.choose(3), crash_at: if t.chance(1, 3) { Some(1 + t.choose(120)) } else { None }, wall_at_start: None };
    let mut v = vec![first];
    if t.chance(2, 3) {
        v.push(LifePlan::new(false, 1, None));
    }
    v
}

pub fn case(t: &mut Tape, ctx: &CaseCtx) -> CaseResult {
    let lives = gen_lives(t);
    let mut script = gen_script(t, &profile());
    if t.chance(1, 3) {
        script.storage_init.push(("server_dictated_poll_interval".into(), SVal::I(*t.pick(&[5_000_000i64, 0, 86_400_000_000, 1]))));
    }
    if t.flag() {
        // reboot waits so that pings carry the header too
        script.reboot_needed = vec![true; 3];
        script.reboot_allowed = vec![(false, false), (false, false), (false, false), (true, true)];
    }
    if t.chance(1, 3) {
        // an embedder that uses the shared storage in reaction to events: it holds the mutex during the poll after
        script.busy_storage_mask = t.raw() | t.raw();
    }
    let h = run_history(script, &lives);
    let (nontrivial, mut classes, amb) = check_history(&h)?;
    if h.log.iter().any(|o| matches!(o, Op::EmbedderHoldsStorage)) {
        classes.push("embedder_holds_storage_during_a_poll");
    }
    let _ = amb;
    Ok(CaseReport {
        key: hash_of(&format!("{:?}{:?}", h.script, lives)),
        nontrivial,
        classes,
        sample: ctx.want_sample.then(|| {
            json!({"lives": format!("{lives:?}"), "http_script": script_json(&h.script)["http"], "observed": h.log.iter().filter_map(|o| match o {
                Op::HttpDone { answer: HttpAnswer::Response { status, authentic, retry_after, .. }, .. } => Some(format!("response {status} authentic={authentic} X-Retry-After={:?}", retry_after.iter().map(|v| String::from_utf8_lossy(v).to_string()).collect::<Vec<_>>())),
                Op::Took(EventView::Protocol(p)) => Some(format!("announced poll={:?}", p.poll)),
                Op::NextTime { state, .. } => Some(format!("policy sees poll={:?}", state.poll)),
                Op::Build { life, .. } => Some(format!("build life {life}")),
                _ => None }).take(30).collect::<Vec<_>>()})
        }),
        ambiguous: false,
    })
}

pub fn run(mut run: Run) -> i32 {
    run.replay_committed(&case);
    run.random("histories with X-Retry-After grammar", &[], run.n(200_000, 2_000_000), 600, &case);
    run.finish(
        RULE,
        500,
        &[
            "header values that cannot be an HTTP header value (control characters) are not sent",
            "a leading '+' and disagreeing duplicate headers are left open by the statement: any consistent reading is accepted",
            "storage works in these histories (storage faults are C14's domain), so every commit succeeds",
            "an embedder may hold the shared storage mutex across a poll (in a third of the histories it does, after events chosen by a mask); the machine then waits for it",
        ],
    )
}

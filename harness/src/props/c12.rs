//! C12 — Scheduled checks wait for the policy's time and minimum wait.

use super::flow::*;
use super::sched::*;
use crate::engine::*;
use crate::sim::types::*;
use crate::tape::Tape;
use serde_json::json;

pub const RULE: &str = "a case = a generated schedule over the gated state machine with check timings {wall-only, monotonic-only, \
complex} x {no minimum wait, minimum wait}, several loop iterations including throttled ones and reboot waits; the \
scheduler fires any subset of the armed timers in any order, mixed with control requests. Oracle: before every wait one \
compute_next_update_time call, a ScheduleChange whose next_update_time equals its answer, one wait_until with exactly that \
time bound and, iff a minimum wait was given, one wait_for with exactly that duration; no unrequested \
update_check_allowed (default options, no request pending) and no ping before BOTH timers of the current wait have fired; \
in the reboot wait the reboot question is asked once on entry and re-asked only per fired 30-minute timer or on-demand \
request. non-trivial = a minimum wait was present and exactly one of the two timers had fired for >= 1 scheduler step; \
distinct by (script, steps) hash.";

struct Wait {
    until: Option<usize>,
    min_for: Option<usize>,
    want_min: bool,
    fired_until: bool,
    fired_for: bool,
    /// a scheduler quiescent point was observed with exactly one of two timers fired
    held_half: bool,
}

pub fn check_log(h: &Hist, info: &SchedInfo) -> Result<(bool, Vec<&'static str>), Failure> {
    check_log_upto(h, info, h.log.len())
}

/// The same rules over the first `upto` log entries only (C11 uses this to tell whether a breach of the schedule lies
/// after the point at which the last control handle was dropped).
pub fn check_log_upto(h: &Hist, info: &SchedInfo, upto: usize) -> Result<(bool, Vec<&'static str>), Failure> {
    let log = &h.log[..upto.min(h.log.len())];
    let ph = phases(log);
    let mut classes: Vec<&'static str> = vec![];
    let mut nontrivial = false;
    if let Some(s) = info.stalled.as_ref().filter(|_| upto >= h.log.len()) {
        return Err(failure("stalled", format!("lost wake-up or deadlock: {s}"), h, Some((log.len().saturating_sub(25), log.len()))));
    }
    let mut cur: Option<Wait> = None;
    // timers armed for the reboot question (30 min), fired count, on-demand requests, questions asked
    let mut reboot_timers: Vec<usize> = vec![];
    let mut reboot_fired = 0usize;
    let mut reboot_asked = 0usize;
    let mut reboot_od_requests = 0usize;
    let mut pending_request = false; // a control request was issued and not yet replied
    let mut open_requests: Vec<usize> = vec![];
    let mut open_od: Vec<usize> = vec![]; // the on-demand ones among them
    let mut i = 0;
    while i < log.len() {
        let around = Some((i.saturating_sub(10), (i + 4).min(log.len())));
        match &log[i] {
            Op::Build { .. } => {
                cur = None;
            }
            Op::NextTime { answer, .. } => {
                // the schedule announcement and the timers that follow must carry exactly this answer
                let mut j = i + 1;
                let mut announced = false;
                let mut until = None;
                let mut min_for = None;
                while j < log.len() {
                    match &log[j] {
                        Op::Took(EventView::Schedule(s)) if !announced => {
                            if s.next_update != Some(*answer) {
                                return Err(failure("schedule-announcement", format!("ScheduleChange announces next update {:?}, the policy answered {answer:?}", s.next_update), h, around));
                            }
                            announced = true;
                        }
                        Op::TimerUntil { id, time } if until.is_none() => {
                            if *time != answer.time {
                                return Err(failure("time-bound-timer", format!("wait_until({time:?}) does not carry the policy's time {:?}", answer.time), h, around));
                            }
                            until = Some(*id);
                        }
                        Op::TimerFor { id, dur } if min_for.is_none() && *dur != REBOOT_RECHECK && Some(*dur) == answer.min_wait => min_for = Some(*id),
                        Op::TimerFor { dur, .. } if *dur != REBOOT_RECHECK && ph[j] != Phase::Checking => {
                            return Err(failure("minimum-wait-timer", format!("wait_for({dur:?}) does not carry the policy's minimum wait {:?}", answer.min_wait), h, around));
                        }
                        Op::Quiescent | Op::Clock { .. } | Op::ControlIssue { .. } | Op::ControlReply { .. } | Op::HandleClone { .. } | Op::HandleDrop { .. } | Op::Storage { .. } | Op::Committed { .. } | Op::TimerFor { .. } | Op::TimerFired { .. } | Op::Took(_) | Op::Metric(_) => {}
                        _ => break,
                    }
                    if until.is_some() && (min_for.is_some() || answer.min_wait.is_none()) && announced {
                        break;
                    }
                    j += 1;
                }
                let truncated = j >= log.len() || matches!(log.get(j), Some(Op::MachineDropped));
                if !truncated {
                    if !announced {
                        return Err(failure("schedule-not-announced", "compute_next_update_time was not followed by a ScheduleChange".to_string(), h, around));
                    }
                    if until.is_none() {
                        return Err(failure("time-bound-timer-missing", "no wait_until was armed for the policy's time".to_string(), h, around));
                    }
                    if answer.min_wait.is_some() && min_for.is_none() {
                        return Err(failure("minimum-wait-timer-missing", format!("the policy gave a minimum wait of {:?} but no wait_for with that duration was armed", answer.min_wait), h, around));
                    }
                }
                cur = Some(Wait { until, min_for, want_min: answer.min_wait.is_some(), fired_until: false, fired_for: false, held_half: false });
                if answer.min_wait.is_some() {
                    classes.push("minimum_wait");
                }
            }
            Op::TimerFor { id, dur } if *dur == REBOOT_RECHECK && ph[i] == Phase::RebootWait => reboot_timers.push(*id),
            Op::TimerFired { id } => {
                if let Some(w) = cur.as_mut() {
                    if w.until == Some(*id) {
                        w.fired_until = true;
                    }
                    if w.min_for == Some(*id) {
                        w.fired_for = true;
                    }
                }
                if reboot_timers.contains(id) {
                    reboot_fired += 1;
                }
            }
            Op::Quiescent => {
                if let Some(w) = cur.as_mut() {
                    if w.want_min && (w.fired_until != w.fired_for) {
                        w.held_half = true;
                    }
                }
            }
            Op::ControlIssue { req, on_demand, .. } => {
                open_requests.push(*req);
                pending_request = true;
                if *on_demand {
                    open_od.push(*req);
                }
                if *on_demand && ph[i] == Phase::RebootWait {
                    reboot_od_requests += 1;
                }
            }
            Op::ControlReply { req, .. } => {
                open_requests.retain(|r| r != req);
                open_od.retain(|r| r != req);
                pending_request = !open_requests.is_empty();
            }
            Op::CheckAllowed { on_demand, .. } => {
                // request-driven iff a Started/Throttled reply follows before the next decision
                let replied = log[i + 1..].iter().take_while(|o| !matches!(o, Op::CheckAllowed { .. })).any(|o| matches!(o, Op::ControlReply { reply: "Started" | "Throttled", .. }));
                let request_driven = replied || (pending_request && *on_demand);
                if !request_driven && !pending_request {
                    let Some(w) = cur.as_ref() else {
                        return Err(failure("check-without-wait", "an unrequested update_check_allowed without a preceding wait".to_string(), h, around));
                    };
                    if !w.fired_until || (w.want_min && !w.fired_for) {
                        return Err(failure(
                            "scheduled-check-before-timers",
                            format!("an unrequested check began although time-bound timer fired = {}, minimum-wait timer fired = {} (minimum wait given: {})", w.fired_until, w.fired_for, w.want_min),
                            h,
                            around,
                        ));
                    }
                    if w.held_half {
                        nontrivial = true;
                        classes.push("one_of_two_timers_held");
                    }
                    classes.push("timer_driven_check");
                }
                cur = None;
            }
            Op::Took(EventView::State(StateView::WaitingForReboot)) => {
                reboot_timers.clear();
                reboot_fired = 0;
                reboot_asked = 0;
                // on-demand requests made while the check was finishing (a slow observer) and still unanswered are
                // answered in the reboot wait: each of them re-asks the question, too
                reboot_od_requests = open_od.len();
                classes.push("reboot_wait");
            }
            Op::RebootAllowed { .. } => {
                reboot_asked += 1;
                // asked once on entry, then only per fired 30-minute timer or on-demand request
                if reboot_asked > 1 + reboot_fired + reboot_od_requests {
                    return Err(failure(
                        "reboot-question-reasked",
                        format!("reboot_allowed asked {reboot_asked} times with {reboot_fired} fired 30-minute timers and {reboot_od_requests} on-demand requests"),
                        h,
                        around,
                    ));
                }
            }
            Op::Http { view: Some(v), .. } if v.kind == ReqKind::Ping && ph[i] == Phase::RebootWait => {
                let Some(w) = cur.as_ref() else {
                    return Err(failure("ping-without-wait", "a ping without a preceding wait".to_string(), h, around));
                };
                if !w.fired_until || (w.want_min && !w.fired_for) {
                    return Err(failure(
                        "ping-before-timers",
                        format!("a ping was sent although time-bound timer fired = {}, minimum-wait timer fired = {} (minimum wait given: {})", w.fired_until, w.fired_for, w.want_min),
                        h,
                        around,
                    ));
                }
                if w.held_half {
                    nontrivial = true;
                    classes.push("one_of_two_timers_held");
                }
                classes.push("ping");
                cur = None;
            }
            _ => {}
        }
        i += 1;
    }
    classes.sort();
    classes.dedup();
    Ok((nontrivial, classes))
}

pub fn case(t: &mut Tape, ctx: &CaseCtx) -> CaseResult {
    let p = SchedProfile { requests_w: 1, drop_machine: false, min_wait: (3, 4), ..Default::default() };
    let (h, info) = run_scheduled(t, &p);
    let (nontrivial, classes) = check_log(&h, &info)?;
    Ok(CaseReport {
        key: hash_of(&format!("{:?}{:?}", h.script, info.steps)),
        nontrivial,
        classes,
        sample: ctx.want_sample.then(|| {
            json!({"steps": info.steps, "timers": h.log.iter().filter_map(|o| match o {
                Op::NextTime { answer, .. } => Some(format!("compute_next_update_time -> {answer:?}")),
                Op::TimerUntil { id, .. } => Some(format!("wait_until #{id}")),
                Op::TimerFor { id, dur } => Some(format!("wait_for #{id} {dur:?}")),
                Op::TimerFired { id } => Some(format!("fired #{id}")),
                Op::CheckAllowed { on_demand, .. } => Some(format!("update_check_allowed(on_demand={on_demand})")),
                Op::RebootAllowed { on_demand, answer } => Some(format!("reboot_allowed(on_demand={on_demand}) -> {answer}")),
                Op::Http { view: Some(v), .. } => Some(format!("request {:?}", v.kind)),
                _ => None }).take(40).collect::<Vec<_>>()})
        }),
        ambiguous: false,
    })
}

pub fn run(mut run: Run) -> i32 {
    run.replay_committed(&case);
    run.random("schedules", &[], run.n(250_000, 2_500_000), 400, &case);
    run.finish(
        RULE,
        200,
        &[
            "the policy never returns a minimum wait of exactly 30 minutes (it would be indistinguishable from the reboot re-ask timer)",
            "a check is 'unrequested' when no control request is outstanding at the decision",
        ],
    )
}

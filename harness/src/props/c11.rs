//! C11 — Every control request gets exactly one, truthful reply.

use super::flow::*;
use super::sched::*;
use crate::engine::*;
use crate::sim::types::*;
use crate::sim::world::GateLabel;
use crate::tape::Tape;
use serde_json::json;

pub const RULE: &str = "a case = a generated schedule (<= 44 steps) over the real state machine with every blocking operation \
gated: up to 6 control requests from up to 3 handle clones with either option, placed at every blocking point (schedule \
timers, HTTP exchanges, plan creation, install, progress delivery, reboot wait, ping, held consumer), handle clones / drops, \
'drop all handles', 'drop the machine', deliberate ties (gate opened and request issued before the next poll, in both \
orders). Oracle: trace acceptor of the abstract run loop (see module docs): exactly one reply per request; Started / \
Throttled only next to an update_check_allowed call carrying the request's options with a positive / negative answer; \
AlreadyRunning only if a check or reboot wait was in progress between issue and reply; on-demand upgrade of the reboot \
question only by on-demand requests; requests answered without any timer firing; Gone after the machine is dropped; no \
stream end when all handles are dropped. non-trivial = requests landing in >= 2 different phases, or a tie, or a background \
request during the reboot wait, or the machine dropped with requests outstanding; distinct by (script, steps) hash.";

/// machine is inside an operation during which the run loop does not listen to the control channel
/// (a ping exchange or the reboot call itself): replies are legitimately deferred
fn control_deaf(log: &[Op], upto: usize, phases: &[Phase]) -> bool {
    // a ping HTTP exchange in flight, or perform_reboot in flight
    let mut http_open: Option<usize> = None;
    let mut reboot_open = false;
    for (i, op) in log[..upto].iter().enumerate() {
        match op {
            Op::Http { n, .. } if phases[i] == Phase::RebootWait => http_open = Some(*n),
            Op::HttpDone { n, .. } if http_open == Some(*n) => http_open = None,
            Op::Reboot { .. } => reboot_open = true,
            Op::Took(EventView::State(StateView::Idle)) => reboot_open = false,
            Op::MachineDropped => {
                reboot_open = false;
                http_open = None;
            }
            _ => {}
        }
    }
    http_open.is_some() || reboot_open
}

pub fn check_log(h: &Hist, info: &SchedInfo) -> Result<(bool, Vec<&'static str>), Failure> {
    let log = &h.log;
    let ph = phases(log);
    let mut classes: Vec<&'static str> = vec![];
    let mut nontrivial = false;

    if let Some(s) = &info.stalled {
        return Err(failure("stalled", format!("lost wake-up or deadlock: {s}; steps: {:?}", info.steps), h, Some((log.len().saturating_sub(25), log.len()))));
    }
    // issue / reply bookkeeping
    let mut issue_at: Vec<(usize, usize, bool)> = vec![]; // (req, log index, on_demand)
    let mut reply_at: Vec<(usize, usize, &'static str)> = vec![];
    for (i, op) in log.iter().enumerate() {
        match op {
            Op::ControlIssue { req, on_demand, .. } => issue_at.push((*req, i, *on_demand)),
            Op::ControlReply { req, reply } => reply_at.push((*req, i, reply)),
            _ => {}
        }
    }
    if let Some(s) = &info.starved {
        return Err(failure("reply-starved-in-reboot-wait", format!("{s}: with the ping timers always due the control channel is never served"), h, Some((log.len().saturating_sub(30), log.len()))));
    }
    let dropped_at = log.iter().position(|o| matches!(o, Op::MachineDropped));
    // exactly one reply each
    for (req, _, _) in &issue_at {
        let n = reply_at.iter().filter(|(r, _, _)| r == req).count();
        if n > 1 {
            return Err(failure("replied-twice", format!("request #{req} received {n} replies"), h, None));
        }
    }
    // answered by the next quiescent point (when the run loop listens)
    for (req, step) in &info.unresolved_at_quiescence {
        // find the Quiescent marker after which it was still unresolved: the marker following its issue where no reply yet
        let (_, ii, _) = issue_at.iter().find(|(r, _, _)| r == req).copied().unwrap();
        let reply_i = reply_at.iter().find(|(r, _, _)| r == req).map(|(_, i, _)| *i).unwrap_or(log.len());
        let overdue = log[ii..reply_i].iter().enumerate().any(|(k, o)| matches!(o, Op::Quiescent) && !control_deaf(log, ii + k, &ph));
        if overdue {
            return Err(failure(
                "reply-overdue",
                format!("request #{req} (issued at step {step}) had no reply although the machine was polled to quiescence while listening; steps: {:?}", info.steps),
                h,
                Some((ii.saturating_sub(6), (ii + 20).min(log.len()))),
            ));
        }
    }
    // requests made or outstanding when the machine is dropped end with Gone, never hang
    if let Some(d) = dropped_at {
        for (req, ii, _) in &issue_at {
            let rep = reply_at.iter().find(|(r, _, _)| r == req);
            match rep {
                None => return Err(failure("hang-after-machine-gone", format!("request #{req} never resolved although the machine is gone"), h, Some((ii.saturating_sub(3), log.len())))),
                Some((_, ri, reply)) => {
                    if *ii > d && *reply != "Gone" {
                        return Err(failure("reply-from-the-grave", format!("request #{req} issued after the machine was dropped got {reply}"), h, Some((d, *ri + 1))));
                    }
                }
            }
        }
        if issue_at.iter().any(|(r, ii, _)| *ii < d && reply_at.iter().any(|(q, ri, _)| q == r && *ri > d)) {
            nontrivial = true;
            classes.push("dropped_with_outstanding_request");
        }
    }
    // continuous operation never ends the stream by itself
    if let Some(i) = log.iter().position(|o| matches!(o, Op::StreamEnd)) {
        return Err(failure("stream-ended", "the event stream of a continuously running machine ended".to_string(), h, Some((i.saturating_sub(10), i + 1))));
    }

    // truthfulness
    let check_allowed: Vec<(usize, bool, bool)> = log.iter().enumerate().filter_map(|(i, o)| if let Op::CheckAllowed { on_demand, answer, .. } = o { Some((i, *on_demand, answer.positive())) } else { None }).collect();
    let mut used: Vec<usize> = vec![];
    let mut phases_hit = std::collections::HashSet::new();
    for (req, ri, reply) in &reply_at {
        let (_, ii, od) = issue_at.iter().find(|(r, _, _)| r == req).copied().unwrap();
        let around = Some((ii.saturating_sub(4), (ri + 3).min(log.len())));
        match *reply {
            "Started" | "Throttled" => {
                let want_pos = *reply == "Started";
                let cand = check_allowed.iter().find(|(ci, cod, pos)| *ci > ii && *ci < *ri && *cod == od && *pos == want_pos && !used.contains(ci));
                match cand {
                    Some((ci, _, _)) => used.push(*ci),
                    None => {
                        return Err(failure(
                            &format!("untruthful-{}", reply.to_lowercase()),
                            format!("request #{req} (on_demand={od}) was answered {reply}, but no update_check_allowed call with its options and a {} answer lies between its issue and its reply", if want_pos { "positive" } else { "negative" }),
                            h,
                            around,
                        ))
                    }
                }
                phases_hit.insert("waiting");
            }
            "AlreadyRunning" => {
                let busy = (ii..=*ri).any(|k| matches!(ph[k], Phase::Checking | Phase::RebootWait));
                if !busy {
                    return Err(failure("untruthful-alreadyrunning", format!("request #{req} was answered AlreadyRunning although no check or reboot wait was in progress between its issue and its reply"), h, around));
                }
                if (ii..=*ri).any(|k| ph[k] == Phase::RebootWait) {
                    phases_hit.insert("reboot_wait");
                    if !od {
                        nontrivial = true;
                        classes.push("background_request_in_reboot_wait");
                    }
                } else {
                    phases_hit.insert("checking");
                }
            }
            "Gone" => {
                if dropped_at.map(|d| d > *ri).unwrap_or(true) {
                    return Err(failure("gone-while-alive", format!("request #{req} failed with Gone although the machine was alive"), h, around));
                }
            }
            _ => {}
        }
    }
    // every update_check_allowed call is either request-driven (assigned above) or timer-driven with default options
    for (ci, cod, _) in &check_allowed {
        if !used.contains(ci) && *cod {
            // an on-demand decision that no request explains: only acceptable if its reply is still outstanding (held consumer / end of run)
            let explained = issue_at.iter().any(|(r, ii, od)| *od && *ii < *ci && !reply_at.iter().any(|(q, ri, _)| q == r && *ri < *ci));
            if !explained {
                return Err(failure("on-demand-decision-without-request", "update_check_allowed was asked with on-demand options although no on-demand request was pending".to_string(), h, Some((ci.saturating_sub(8), ci + 2))));
            }
        }
    }
    // the reboot question is on-demand only if the check was started by, or has since received, an on-demand request
    let mut od_possible = false;
    let mut od_outstanding: Vec<usize> = vec![];
    for (i, op) in log.iter().enumerate() {
        match op {
            // a request issued before the decision but dequeued after it counts as "has since received"
            Op::CheckAllowed { on_demand, .. } => od_possible = *on_demand || !od_outstanding.is_empty(),
            Op::ControlIssue { on_demand: true, req, .. } => {
                od_possible = true;
                od_outstanding.push(*req);
            }
            Op::ControlReply { req, .. } => od_outstanding.retain(|r| r != req),
            Op::RebootAllowed { on_demand: true, .. } if !od_possible => {
                return Err(failure(
                    "reboot-question-upgraded-without-on-demand-request",
                    "reboot_allowed was asked with on-demand options although the check was neither started by nor has since received an on-demand request".to_string(),
                    h,
                    Some((i.saturating_sub(10), i + 2)),
                ));
            }
            _ => {}
        }
    }
    // ... and conversely: once the check was started by an on-demand request, or an on-demand request has been
    // answered AlreadyRunning during the check or the reboot wait, the reboot question stays on-demand (later
    // background requests do not downgrade it)
    let mut od_certain = false;
    for (i, op) in log.iter().enumerate() {
        match op {
            Op::CheckAllowed { on_demand, answer, .. } => od_certain = *on_demand && answer.positive(),
            Op::ControlReply { req, reply: "AlreadyRunning" } => {
                if issue_at.iter().any(|(r, _, od)| r == req && *od) {
                    od_certain = true;
                }
            }
            Op::Took(EventView::State(StateView::Idle)) | Op::Build { .. } => od_certain = false,
            Op::RebootAllowed { on_demand: false, .. } if od_certain => {
                return Err(failure(
                    "reboot-question-not-on-demand",
                    "reboot_allowed was asked with background options although this check was started by, or has received, an on-demand request".to_string(),
                    h,
                    Some((i.saturating_sub(14), i + 2)),
                ));
            }
            _ => {}
        }
    }
    // an on-demand request answered during the reboot wait is followed by the on-demand reboot question (and the reboot iff yes)
    for (req, ri, reply) in &reply_at {
        let (_, ii, od) = issue_at.iter().find(|(r, _, _)| r == req).copied().unwrap();
        if *reply == "AlreadyRunning" && od && (ii..=*ri).all(|k| ph[k] == Phase::RebootWait) {
            // between issue and the next quiescent point after the reply there must be RebootAllowed{on_demand: true}
            let end = log[*ri..].iter().position(|o| matches!(o, Op::Quiescent)).map(|k| ri + k).unwrap_or(log.len());
            let asked = log[ii..end].iter().position(|o| matches!(o, Op::RebootAllowed { on_demand: true, .. })).map(|k| ii + k);
            match asked {
                None => {
                    if dropped_at.map(|d| d > end).unwrap_or(true) && end < log.len() {
                        return Err(failure("on-demand-request-did-not-reask-reboot", format!("on-demand request #{req} during the reboot wait did not trigger the on-demand reboot question"), h, Some((ii.saturating_sub(4), end + 1))));
                    }
                }
                Some(a) => {
                    if let Op::RebootAllowed { answer: true, .. } = &log[a] {
                        // reboot must be the next installer interaction
                        let next = log[a + 1..].iter().find(|o| matches!(o, Op::Reboot { .. } | Op::Http { .. } | Op::NextTime { .. } | Op::MachineDropped));
                        if !matches!(next, Some(Op::Reboot { .. }) | Some(Op::MachineDropped) | None) {
                            return Err(failure("allowed-reboot-not-performed", "the policy allowed the on-demand reboot but the machine did not reboot".to_string(), h, Some((a.saturating_sub(3), (a + 8).min(log.len())))));
                        }
                    }
                    classes.push("on_demand_upgrade_in_reboot_wait");
                }
            }
        }
    }
    // a request answered although no timer ever fired before it
    for (req, ri, _) in &reply_at {
        let _ = req;
        if !log[..*ri].iter().any(|o| matches!(o, Op::TimerFired { .. })) {
            classes.push("answered_without_any_timer");
        }
    }
    // scheduled operation continues after all handles are dropped
    if info.steps.iter().any(|s| s.starts_with("ping storm")) {
        classes.push("request_during_a_ping_storm_in_the_reboot_wait");
    }
    if info.all_handles_dropped {
        classes.push("all_handles_dropped");
        if let Some(d) = log.iter().rposition(|o| matches!(o, Op::HandleDrop { .. })) {
            if log[d..].iter().any(|o| matches!(o, Op::CheckAllowed { on_demand: false, .. })) {
                classes.push("timer_check_after_handles_dropped");
            }
            // "dropping all handles leaves scheduled operation intact": the scheduling rules (C12's monitor: one timing
            // question, announcement and exact timers per wait; no unrequested check or ping before both timers fired)
            // must keep holding after the last drop. A breach that already exists in the log up to the drop is C12's to
            // report, not this clause's.
            if let Err(f) = super::c12::check_log(h, info) {
                if f.signature != "stalled" && super::c12::check_log_upto(h, info, d + 1).is_ok() {
                    return Err(failure(&format!("schedule-not-intact-after-handles-dropped:{}", f.signature), format!("after the last control handle was dropped: {}", f.message), h, Some((d.saturating_sub(6), (d + 30).min(log.len())))));
                }
            }
        }
    }
    if phases_hit.len() >= 2 {
        nontrivial = true;
        classes.push("requests_in_several_phases");
    }
    if info.ties > 0 && !issue_at.is_empty() {
        nontrivial = true;
        classes.push("tie");
    }
    for p in phases_hit {
        classes.push(match p {
            "waiting" => "request_while_waiting",
            "checking" => "request_while_checking",
            _ => "request_in_reboot_wait",
        });
    }
    let _ = GateLabel::None;
    classes.sort();
    classes.dedup();
    Ok((nontrivial, classes))
}

pub fn case(t: &mut Tape, ctx: &CaseCtx) -> CaseResult {
    let p = SchedProfile { requests_w: 5, ping_storm_w: 2, ..Default::default() };
    let (h, info) = run_scheduled(t, &p);
    let (nontrivial, classes) = check_log(&h, &info)?;
    Ok(CaseReport {
        key: hash_of(&format!("{:?}{:?}", h.script, info.steps)),
        nontrivial,
        classes,
        sample: ctx.want_sample.then(|| {
            json!({"steps": info.steps, "control": h.log.iter().filter_map(|o| match o {
                Op::ControlIssue { req, handle, on_demand } => Some(format!("issue #{req} handle={handle} on_demand={on_demand}")),
                Op::ControlReply { req, reply } => Some(format!("reply #{req} {reply}")),
                Op::CheckAllowed { on_demand, answer, .. } => Some(format!("update_check_allowed(on_demand={on_demand}) -> {}", answer.kind)),
                Op::RebootAllowed { on_demand, answer } => Some(format!("reboot_allowed(on_demand={on_demand}) -> {answer}")),
                Op::Took(EventView::State(s)) => Some(format!("state {s:?}")),
                Op::MachineDropped => Some("machine dropped".into()),
                _ => None }).take(40).collect::<Vec<_>>()})
        }),
        ambiguous: false,
    })
}

pub fn run(mut run: Run) -> i32 {
    run.replay_committed(&case);
    run.random("schedules", &[], run.n(250_000, 2_500_000), 400, &case);
    run.finish(
        RULE,
        300,
        &[
            "ping storms: futures' select! picks among ready branches pseudo-randomly; a request that is ready together with an always-due ping timer is therefore served within a few rounds (64 pings in a row ahead of it has probability 2^-64, which is the false-alarm rate of the 'reply-starved' rule per storm)",
            "'arrived while ...' is read as any phase the machine was in between the request being issued and its reply being sent",
            "while a ping exchange or perform_reboot is in flight the run loop does not listen: replies are deferred until it completes",
            "both serialisations of a select! tie are accepted; replay executes a case several times in one thread",
            "policy answers are immediate; blocking points are timers, HTTP exchanges, plan creation, install, progress delivery, reboot, and a held consumer",
        ],
    )
}

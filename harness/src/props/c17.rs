//! C17 — Mock Omaha server conforms to the client it doubles for.

use crate::cupref;
use crate::engine::*;
use crate::props::c01::gen_ids;
use crate::sim::{exec::*, types::*, world::build_app};
use crate::tape::Tape;
use crate::urlref::*;
use futures::executor::block_on;
use futures::future::BoxFuture;
use futures::FutureExt;
use mock_omaha_server::{handle_request, OmahaResponse, OmahaServer, OmahaServerBuilder, PrivateKeyAndId, PrivateKeys, ResponseAndMetadata, UpdateCheckAssertion};
use omaha_client::{
    configuration::{Config, Updater},
    cup_ecdsa::{Cupv2RequestHandler, Nonce, RequestMetadata, StandardCupv2Handler},
    http_request::{Error as HttpError, HttpRequest},
    protocol::{
        request::{Event, EventType, InstallSource, GUID, OS},
        response::{parse_json_response, OmahaStatus},
    },
    request_builder::{RequestBuilder, RequestParams},
    version::Version,
};
use serde_json::{json, Value};
use std::sync::Arc;
use tokio::sync::Mutex as TMutex;

pub const RULE: &str = "mode 0: server configurations (1-4 apps, response kind per app, versions asserted or not, update assertion \
consistent with the client's parameters, private keys latest + historical) x client key sets (the client's latest id is \
the server's latest, one of its historical ids, or unknown to it) x service URLs with arbitrary path and query x cohorts x \
request parameters; update-check and event requests BUILT BY THE CLIENT LIBRARY are handed to handle_request in origin \
form, the body in one data frame or (1 case in 3) in 2-4 frames. Oracle: no panic; the body is accepted by parse_json_response (rejected iff an InvalidResponse kind is configured); \
exactly the requested apps in request order with the configured decision; when the server holds the key for the request's \
cup2key id the ETag verifies with the client's StandardCupv2Handler for this exchange and fails for the metadata of another \
exchange, otherwise there is no acceptable ETag; a /set_responses_by_appid reconfiguration changes all later answers. \
mode 1: the real state machine driven end to end against the in-process mock reaches the configured outcome (no update, \
update, urgent update, invalid response, forced ETag). non-trivial = >= 2 apps with different kinds, or a historical key on \
either side, or a URL with a path or query; distinct by case hash.";

const KINDS: [OmahaResponse; 5] = [OmahaResponse::NoUpdate, OmahaResponse::Update, OmahaResponse::UrgentUpdate, OmahaResponse::InvalidResponse, OmahaResponse::InvalidURL];

#[derive(Clone, Debug)]
struct Cfg {
    apps: Vec<AppSpec>,
    kinds: Vec<usize>,
    assert_version: Vec<bool>,
    disable_updates: bool,
    on_demand: bool,
    /// server key set (id, pool idx); first is latest
    server_keys: Vec<(u64, usize)>,
    /// client key set; first is latest
    client_keys: Option<Vec<(u64, usize)>>,
    client_relation: &'static str,
    url: GenUrl,
    etag_override: Option<String>,
    /// only ever set when every request of the case carries a cup2key for a key the server holds (otherwise the
    /// mock is documented to panic)
    require_cup: bool,
}

fn gen_cfg(t: &mut Tape) -> Cfg {
    let napps = 1 + t.choose(4);
    let apps: Vec<AppSpec> = (0..napps)
        .map(|i| AppSpec {
            id: format!("{}{i}", t.pick(&["app", "integration-test-appid-", "{0000-", "a b", "{8A69D345-D564-463C-AFF1-A69D9E530F9", "MixedCase.App-", "\u{c9}t\u{e9}-"])),
            version: vec![t.choose(5) as u32, t.u32_biased(), t.choose(3) as u32, 1 + t.choose(9) as u32],
            fingerprint: None,
            cohort: [t.option(|t| t.ident(5)), t.option(|t| t.ident(5)), t.option(|t| t.ident(5))],
            days: t.option(|t| t.u32_biased()),
            extras: vec![],
        })
        .collect();
    let kinds: Vec<usize> = (0..napps).map(|_| t.weighted(&[4, 3, 2, 1, 1])).collect();
    let nk = 1 + t.choose(3);
    let ids = gen_ids(t, nk + 1);
    let first = t.choose(cupref::POOL);
    let server_keys: Vec<(u64, usize)> = ids[..nk].iter().enumerate().map(|(i, id)| (*id, (first + i) % cupref::POOL)).collect();
    let (client_keys, client_relation) = match t.weighted(&[3, 3, 2, 1]) {
        0 => (None, "no CUP"),
        1 => (Some(server_keys.clone()), "client latest = server latest"),
        2 => {
            if nk >= 2 {
                // the client still uses an id the server keeps as historical
                let k = 1 + t.choose(nk - 1);
                (Some(vec![server_keys[k]]), "client latest = a server historical key")
            } else {
                (Some(server_keys.clone()), "client latest = server latest")
            }
        }
        _ => (Some(vec![(ids[nk], (first + nk) % cupref::POOL)]), "client key unknown to the server"),
    };
    let require_cup = matches!(client_relation, "client latest = server latest" | "client latest = a server historical key") && t.flag();
    Cfg {
        require_cup,
        apps,
        kinds,
        assert_version: (0..napps).map(|_| t.flag()).collect(),
        disable_updates: t.chance(1, 4),
        on_demand: t.flag(),
        server_keys,
        client_keys,
        client_relation,
        url: gen_url(t),
        etag_override: None,
    }
}

fn server_of(c: &Cfg) -> OmahaServer {
    let responses: Vec<(String, ResponseAndMetadata)> = c
        .apps
        .iter()
        .enumerate()
        .map(|(i, a)| {
            (
                a.id.clone(),
                ResponseAndMetadata {
                    response: KINDS[c.kinds[i]],
                    check_assertion: if c.disable_updates { UpdateCheckAssertion::UpdatesDisabled } else { UpdateCheckAssertion::UpdatesEnabled },
                    version: c.assert_version[i].then(|| build_app(a).version.to_string()),
                    cohort_assertion: a.cohort[0].clone().filter(|_| i % 2 == 0),
                    codebase: format!("fuchsia-pkg://mock.test/{i}/"),
                    package_name: format!("update{i}?hash=00"),
                },
            )
        })
        .collect();
    let keys = PrivateKeys {
        latest: PrivateKeyAndId { id: c.server_keys[0].0, key: cupref::key(c.server_keys[0].1).clone() },
        historical: c.server_keys[1..].iter().map(|(id, k)| PrivateKeyAndId { id: *id, key: cupref::key(*k).clone() }).collect(),
    };
    OmahaServerBuilder::default().responses_by_appid(responses.into_iter().collect::<std::collections::HashMap<_, _>>()).private_keys(keys).etag_override(c.etag_override.clone()).require_cup(c.require_cup).build().expect("server config")
}

fn config_of(c: &Cfg) -> Config {
    Config {
        updater: Updater { name: "verif".into(), version: Version::from([1, 2, 3, 4]) },
        os: OS::default(),
        service_url: c.url.text.clone(),
        omaha_public_keys: None,
    }
}

/// hand the request to the server the way an HTTP/1.1 client puts it on the wire: origin form
fn to_origin_form(req: http::Request<hyper::Body>) -> (http::Request<hyper::Body>, String) {
    let (mut parts, body) = req.into_parts();
    let pq = parts.uri.path_and_query().map(|p| p.as_str().to_string()).unwrap_or_else(|| "/".to_string());
    let pq = if pq.starts_with('/') { pq } else { format!("/{pq}") };
    parts.uri = pq.parse().expect("origin-form uri");
    (http::Request::from_parts(parts, body), pq)
}

/// The mock server reached over a real loopback socket, one keep-alive connection for the whole case (as a pooled HTTP
/// client would use it): started with `OmahaServer::start` on an ephemeral port of a current-thread tokio runtime.
pub struct SocketConn {
    rt: tokio::runtime::Runtime,
    stream: Option<tokio::net::TcpStream>,
}
impl SocketConn {
    pub fn start(server: &Arc<TMutex<OmahaServer>>) -> Option<SocketConn> {
        let rt = tokio::runtime::Builder::new_current_thread().enable_all().build().ok()?;
        let server = server.clone();
        let stream = rt.block_on(async move {
            let (addr, _task) = OmahaServer::start(server, None).await.ok()?;
            let hostport = addr.trim_start_matches("http://").trim_end_matches('/').to_string();
            tokio::net::TcpStream::connect(hostport).await.ok()
        })?;
        Some(SocketConn { rt, stream: Some(stream) })
    }
    /// one HTTP/1.1 exchange on the kept-alive connection; the body is written in `frames` pieces
    fn exchange(&mut self, method: &str, pq: &str, headers: &[(String, Vec<u8>)], body: &[u8], frames: usize) -> Result<(u16, Option<Vec<u8>>, Vec<u8>), String> {
        use tokio::io::{AsyncReadExt, AsyncWriteExt};
        let Some(stream) = self.stream.as_mut() else { return Err("connection closed by the server".into()) };
        let mut head = format!("{method} {pq} HTTP/1.1\r\nhost: mock.test\r\ncontent-length: {}\r\n", body.len()).into_bytes();
        for (k, v) in headers {
            if k.eq_ignore_ascii_case("content-length") || k.eq_ignore_ascii_case("host") {
                continue;
            }
            head.extend_from_slice(k.as_bytes());
            head.extend_from_slice(b": ");
            head.extend_from_slice(v);
            head.extend_from_slice(b"\r\n");
        }
        head.extend_from_slice(b"\r\n");
        let size = ((body.len() + frames.max(1) - 1) / frames.max(1)).max(1);
        let r = self.rt.block_on(async {
            stream.write_all(&head).await.map_err(|e| e.to_string())?;
            for chunk in body.chunks(size) {
                stream.write_all(chunk).await.map_err(|e| e.to_string())?;
                stream.flush().await.map_err(|e| e.to_string())?;
                tokio::task::yield_now().await;
            }
            let mut buf: Vec<u8> = vec![];
            let mut tmp = [0u8; 4096];
            let head_end = loop {
                if let Some(i) = buf.windows(4).position(|w| w == b"\r\n\r\n") {
                    break i + 4;
                }
                let n = stream.read(&mut tmp).await.map_err(|e| e.to_string())?;
                if n == 0 {
                    return Err("connection closed by the server".to_string());
                }
                buf.extend_from_slice(&tmp[..n]);
            };
            let head_text = String::from_utf8_lossy(&buf[..head_end]).to_string();
            let mut lines = head_text.split("\r\n");
            let status: u16 = lines.next().and_then(|l| l.split(' ').nth(1)).and_then(|x| x.parse().ok()).ok_or("bad status line")?;
            let mut len = 0usize;
            let mut etag = None;
            for l in lines {
                if let Some((k, v)) = l.split_once(':') {
                    if k.eq_ignore_ascii_case("content-length") {
                        len = v.trim().parse().map_err(|_| "bad content-length")?;
                    }
                    if k.eq_ignore_ascii_case("etag") && etag.is_none() {
                        etag = Some(v.trim().as_bytes().to_vec());
                    }
                }
            }
            while buf.len() < head_end + len {
                let n = stream.read(&mut tmp).await.map_err(|e| e.to_string())?;
                if n == 0 {
                    return Err("connection closed by the server".to_string());
                }
                buf.extend_from_slice(&tmp[..n]);
            }
            Ok((status, etag, buf[head_end..head_end + len].to_vec()))
        });
        if r.is_err() {
            self.stream = None;
        }
        r
    }
}

/// `frames` > 1: the request body reaches the server in that many data frames (as it does over a socket when it
/// exceeds one read or is split across segments) instead of one.
fn call_server(server: &Arc<TMutex<OmahaServer>>, req: http::Request<hyper::Body>, frames: usize, sock: Option<&mut SocketConn>) -> Result<(u16, Option<Vec<u8>>, Vec<u8>), String> {
    if let Some(sock) = sock {
        let (parts, body) = req.into_parts();
        let bytes = block_on(hyper::body::to_bytes(body)).map_err(|e| e.to_string())?.to_vec();
        let headers: Vec<(String, Vec<u8>)> = parts.headers.iter().map(|(k, v)| (k.as_str().to_string(), v.as_bytes().to_vec())).collect();
        let pq = parts.uri.path_and_query().map(|p| p.as_str().to_string()).unwrap_or_else(|| "/".into());
        let r = catch(|| sock.exchange(parts.method.as_str(), &pq, &headers, &bytes, frames));
        return match r {
            Ok(Ok(x)) => Ok(x),
            // an I/O error without a recorded server panic is the sandbox's (ports, descriptors), not the server's
            Ok(Err(e)) => match take_last_panic() {
                Some((loc, msg)) => Err(format!("PANIC at {}: {msg}", short_loc(&loc))),
                None => Err(format!("SOCKET-IO {e}")),
            },
            Err((loc, msg)) => Err(format!("PANIC at {}: {msg}", short_loc(&loc))),
        };
    }
    let r = catch(|| {
        block_on(async {
            let (req, feeder) = if frames > 1 {
                let (parts, body) = req.into_parts();
                let bytes = hyper::body::to_bytes(body).await.map_err(|e| e.to_string())?.to_vec();
                let (mut tx, body) = hyper::Body::channel();
                let size = ((bytes.len() + frames - 1) / frames).max(1);
                let feeder = async move {
                    for chunk in bytes.chunks(size) {
                        if tx.send_data(hyper::body::Bytes::copy_from_slice(chunk)).await.is_err() {
                            break;
                        }
                    }
                }
                .boxed_local();
                (http::Request::from_parts(parts, body), feeder)
            } else {
                (req, async {}.boxed_local())
            };
            let (resp, ()) = futures::join!(handle_request(req, server), feeder);
            let resp = resp.map_err(|e| e.to_string())?;
            let (parts, body) = resp.into_parts();
            let bytes = hyper::body::to_bytes(body).await.map_err(|e| e.to_string())?.to_vec();
            Ok::<_, String>((parts.status.as_u16(), parts.headers.get(http::header::ETAG).map(|v| v.as_bytes().to_vec()), bytes))
        })
    });
    match r {
        Ok(x) => x,
        Err((loc, msg)) => Err(format!("PANIC at {}: {msg}", short_loc(&loc))),
    }
}

fn case_direct(t: &mut Tape, ctx: &CaseCtx) -> CaseResult {
    let mut c = gen_cfg(t);
    let events_only = t.chance(1, 3);
    let reconfigure = t.chance(1, 4);
    let mixed = !events_only && t.chance(1, 4);
    let reconf_style: Vec<usize> = (0..4).map(|_| t.choose(6)).collect();
    let frames = if t.chance(1, 3) { 2 + t.choose(3) } else { 1 };
    let cohort_moves_on = reconfigure && t.flag();
    let over_socket = t.chance(1, 8);
    if t.chance(1, 6) {
        // a forced ETag: any visible-ASCII text
        const TOK: [&str; 8] = ["00", ":", "\"", "W/", "ab", "3045", " ", "~"];
        let n = t.choose(5);
        c.etag_override = Some((0..n).map(|_| *t.pick(&TOK)).collect());
    }
    if c.url.text.parse::<http::Uri>().is_err() {
        return Ok(CaseReport { key: hash_of(&c.url.text), classes: vec!["uri_rejected_by_http_crate"], ..Default::default() });
    }
    let case = json!({"apps": c.apps.iter().map(|a| a.id.clone()).collect::<Vec<_>>(), "kinds": c.kinds.iter().map(|k| format!("{:?}", KINDS[*k])).collect::<Vec<_>>(),
        "server_keys(id,pool)": c.server_keys, "client_keys": c.client_keys, "relation": c.client_relation, "service_url": c.url.text, "events_only": events_only,
        "disable_updates": c.disable_updates, "reconfigure": reconfigure, "require_cup": c.require_cup, "forced_etag": c.etag_override});
    let bad = |sig: &str, msg: String| Err(Failure::new(sig, msg, case.clone()));
    let server = Arc::new(TMutex::new(server_of(&c)));
    // one case in eight talks to the server the way a pooled HTTP client does: a real socket, one kept-alive connection
    // (at most 20 000 socket cases per process: every one costs a listener and a connection of the sandbox)
    static SOCKET_CASES: std::sync::atomic::AtomicUsize = std::sync::atomic::AtomicUsize::new(0);
    let mut sock = if over_socket && SOCKET_CASES.fetch_add(1, std::sync::atomic::Ordering::Relaxed) < 20_000 { SocketConn::start(&server) } else { None };
    let config = config_of(&c);
    let params = RequestParams { source: if c.on_demand { InstallSource::OnDemand } else { InstallSource::ScheduledTask }, use_configured_proxies: false, disable_updates: c.disable_updates, offer_update_if_same_version: false };
    let handler = c.client_keys.as_ref().map(|k| StandardCupv2Handler::new(&cupref::public_keys(k[0], &k[1..])));
    let mut apps: Vec<_> = c.apps.iter().map(build_app).collect();
    // the configured cohort assertion concerns update checks; by the time a client reports events it has usually
    // adopted the cohort the server assigned in its answer ("1:1:"), or holds none
    let events_with_other_cohort = events_only && t.flag();
    if events_with_other_cohort {
        for a in apps.iter_mut() {
            a.cohort.id = if t.flag() { Some("1:1:".to_string()) } else { None };
        }
    }
    // request order: any permutation of the configured apps (update checks need all of them; event reports any non-empty subset)
    let mut order: Vec<usize> = (0..apps.len()).collect();
    match t.choose(3) {
        0 => {}
        1 => order.reverse(),
        _ => {
            let r = t.choose(order.len());
            order.rotate_left(r);
        }
    }
    if events_only {
        let keep = 1 + t.choose(order.len());
        order.truncate(keep);
    }
    let mut metas: Vec<(RequestMetadata, Vec<u8>, Option<Vec<u8>>)> = vec![];
    let rounds = if reconfigure { 2 } else { 1 };
    for round in 0..rounds {
        if round == 1 {
            // reconfigure through the server's own endpoint: flip every kind between NoUpdate and Update
            for k in c.kinds.iter_mut() {
                *k = if *k == 0 { 1 } else { 0 };
            }
            let body: Value = c
                .apps
                .iter()
                .enumerate()
                .map(|(i, a)| {
                    (
                        a.id.clone(),
                        {
                            // the two optional assertions: given as null, left out altogether, or (version) set to the
                            // version the client really reports
                            let mut o = serde_json::Map::new();
                            o.insert("response".into(), json!(format!("{:?}", KINDS[c.kinds[i]])));
                            o.insert("check_assertion".into(), json!(if c.disable_updates { "UpdatesDisabled" } else { "UpdatesEnabled" }));
                            match reconf_style[i] % 3 {
                                0 => {
                                    o.insert("version".into(), Value::Null);
                                }
                                1 => {}
                                _ => {
                                    o.insert("version".into(), json!(build_app(a).version.to_string()));
                                }
                            }
                            if (reconf_style[i] / 3) % 2 == 0 {
                                o.insert("cohort_assertion".into(), Value::Null);
                            }
                            o.insert("codebase".into(), json!("fuchsia-pkg://mock.test/r/"));
                            o.insert("package_name".into(), json!("p"));
                            Value::Object(o)
                        },
                    )
                })
                .collect::<serde_json::Map<_, _>>()
                .into();
            // the new configuration carries no cohort assertion: a client that has meanwhile adopted the cohort the
            // server assigned ("1:1:"), or lost its cohort, must be served like any other
            if cohort_moves_on {
                for a in apps.iter_mut() {
                    a.cohort.id = if a.cohort.id.as_deref() == Some("1:1:") { None } else { Some("1:1:".to_string()) };
                }
            }
            let req = http::Request::post("/set_responses_by_appid").body(hyper::Body::from(body.to_string())).unwrap();
            match call_server(&server, req, frames, sock.as_mut()) {
                Ok((200, _, _)) => {}
                Err(e) if e.starts_with("SOCKET-IO") => return Ok(CaseReport { key: hash_of(&c.url.text), classes: vec!["socket_io_error"], ..Default::default() }),
                other => return bad("reconfiguration-failed", format!("/set_responses_by_appid answered {other:?}")),
            }
        }
        let mut rb = RequestBuilder::new(&config, &params);
        for i in &order {
            rb = if events_only {
                rb.add_event(&apps[*i], Event::success(EventType::UpdateComplete))
            } else if mixed {
                // an update check that also carries an event for the same app (the builder and the protocol allow it)
                rb.add_update_check(&apps[*i]).add_ping(&apps[*i]).add_event(&apps[*i], Event::success(EventType::UpdateComplete))
            } else {
                rb.add_update_check(&apps[*i]).add_ping(&apps[*i])
            };
        }
        rb = rb.session_id(GUID::new()).request_id(GUID::new());
        let (req, meta) = match rb.build(handler.as_ref()) {
            Ok(x) => x,
            Err(e) => return Ok(CaseReport { key: hash_of(&c.url.text), classes: vec!["client_build_error"], sample: ctx.want_sample.then(|| json!({"case": case, "error": format!("{e:?}")})), ..Default::default() }),
        };
        let (req, pq) = to_origin_form(req);
        let (status, etag, body) = match call_server(&server, req, frames, sock.as_mut()) {
            Ok(x) => x,
            Err(e) if e.starts_with("PANIC") => {
                let loc = e.split(':').nth(0).unwrap_or("").to_string() + ":" + e.split(':').nth(1).unwrap_or("");
                return bad(&format!("server-{}", loc.replace("PANIC at ", "panic@")), format!("the mock server panicked on a client-built request to {pq:?}: {e}"));
            }
            Err(e) if e.starts_with("SOCKET-IO") => return Ok(CaseReport { key: hash_of(&c.url.text), classes: vec!["socket_io_error"], ..Default::default() }),
            Err(e) => return bad("server-error", format!("the mock server failed on a client-built request to {pq:?}: {e}")),
        };
        if status != 200 {
            return bad("server-status", format!("status {status}"));
        }
        // the client's parser
        let any_invalid = !events_only && order.iter().any(|i| KINDS[c.kinds[*i]] == OmahaResponse::InvalidResponse);
        let parsed = parse_json_response(&body);
        match (&parsed, any_invalid) {
            (Err(_), true) => {}
            (Ok(resp), false) => {
                let got: Vec<&str> = resp.apps.iter().map(|a| a.id.as_str()).collect();
                let want: Vec<&str> = order.iter().map(|i| c.apps[*i].id.as_str()).collect();
                if got != want {
                    return bad("apps-not-in-request-order", format!("the response lists apps {got:?}; the request listed {want:?}"));
                }
                for (a, i) in resp.apps.iter().zip(&order) {
                    if events_only {
                        if a.update_check.is_some() {
                            return bad("updatecheck-for-event-request", format!("app {} got an updatecheck in the answer to an event report", a.id));
                        }
                        continue;
                    }
                    let Some(u) = &a.update_check else { return bad("updatecheck-missing", format!("app {} has no updatecheck", a.id)) };
                    let kind = KINDS[c.kinds[*i]];
                    let ok = match kind {
                        OmahaResponse::NoUpdate => u.status == OmahaStatus::NoUpdate,
                        OmahaResponse::Update | OmahaResponse::InvalidURL => u.status == OmahaStatus::Ok && u.manifest.is_some() && !u.extra_attributes.contains_key("_urgent_update"),
                        OmahaResponse::UrgentUpdate => u.status == OmahaStatus::Ok && u.extra_attributes.get("_urgent_update") == Some(&Value::Bool(true)),
                        OmahaResponse::InvalidResponse => false,
                    };
                    if !ok {
                        return bad("configured-decision", format!("app {} is configured {kind:?} but answered status {:?} extra {:?}", a.id, u.status, u.extra_attributes));
                    }
                    // the decision carries this app's own configured payload (codebase and package), not another app's
                    if matches!(kind, OmahaResponse::Update | OmahaResponse::UrgentUpdate | OmahaResponse::InvalidURL) {
                        let (want_codebase, want_package) = if round == 1 { ("fuchsia-pkg://mock.test/r/".to_string(), "p".to_string()) } else { (format!("fuchsia-pkg://mock.test/{i}/"), format!("update{i}?hash=00")) };
                        let got_codebases: Vec<&str> = u.get_all_url_codebases().collect();
                        let got_packages: Vec<&str> = u.manifest.as_ref().map(|m| m.packages.package.iter().map(|p| p.name.as_str()).collect()).unwrap_or_default();
                        if (kind != OmahaResponse::InvalidURL && got_codebases != [want_codebase.as_str()]) || got_packages != [want_package.as_str()] {
                            return bad("configured-payload", format!("app {} is configured with codebase {want_codebase:?} and package {want_package:?} but was answered with {got_codebases:?} / {got_packages:?}", a.id));
                        }
                    }
                    if round == 1 && kind == OmahaResponse::Update && u.get_all_url_codebases().next() != Some("fuchsia-pkg://mock.test/r/") {
                        return bad("reconfiguration-ignored", format!("after /set_responses_by_appid app {} still answers with codebase {:?}", a.id, u.get_all_url_codebases().next()));
                    }
                }
            }
            (Ok(_), true) => return bad("invalid-response-parsed", "an InvalidResponse kind is configured but the client's parser accepted the answer".into()),
            (Err(e), false) => return bad("answer-rejected-by-client-parser", format!("the client's parser rejects the mock's answer: {e}; body {}", String::from_utf8_lossy(&body))),
        }
        // CUP
        if let Some(forced) = &c.etag_override {
            // over a socket HTTP itself strips optional whitespace around a header value (and drops an empty one)
            let sent_as_forced = if sock.is_some() {
                let f = forced.trim_matches(|c| c == ' ' || c == '\t');
                etag.as_deref().unwrap_or(b"") == f.as_bytes()
            } else {
                etag.as_deref() == Some(forced.as_bytes())
            };
            if !sent_as_forced {
                return bad("forced-etag-not-sent", format!("the server is configured to force the ETag {forced:?} but sent {:?}", etag.as_ref().map(|e| String::from_utf8_lossy(e).to_string())));
            }
        } else if let (Some(h), Some(meta)) = (&handler, &meta) {
            let server_has_key = c.server_keys.iter().any(|(id, _)| *id == meta.public_key_id);
            let mut b = http::Response::builder().status(200);
            if let Some(e) = &etag {
                b = b.header(http::header::ETAG, http::HeaderValue::from_bytes(e).unwrap());
            }
            let resp = b.body(body.clone()).unwrap();
            let verdict = h.verify_response(meta, &resp, meta.public_key_id);
            if server_has_key {
                if let Err(e) = verdict {
                    return bad("etag-not-accepted", format!("the server holds the key for id {} but its ETag {:?} is rejected by the client's verifier: {e:?} (request {pq:?})", meta.public_key_id, etag.as_ref().map(|e| String::from_utf8_lossy(e).to_string())));
                }
                // ... and for no other exchange: another nonce, another request body
                let mut n2: [u8; 32] = meta.nonce.into();
                n2[0] ^= 1;
                let other = RequestMetadata { request_body: meta.request_body.clone(), public_key_id: meta.public_key_id, nonce: Nonce::from(n2) };
                if h.verify_response(&other, &resp, other.public_key_id).is_ok() {
                    return bad("etag-accepted-for-other-nonce", "the ETag also verifies for another nonce: the cup2key string is not part of the signed digest".into());
                }
                let mut other = meta.clone();
                other.request_body.push(b' ');
                if h.verify_response(&other, &resp, other.public_key_id).is_ok() {
                    return bad("etag-accepted-for-other-request", "the ETag also verifies for another request body".into());
                }
                let mut b2 = body.clone();
                b2.push(b' ');
                let mut rb2 = http::Response::builder().status(200);
                if let Some(e) = &etag {
                    rb2 = rb2.header(http::header::ETAG, http::HeaderValue::from_bytes(e).unwrap());
                }
                if h.verify_response(meta, &rb2.body(b2).unwrap(), meta.public_key_id).is_ok() {
                    return bad("etag-accepted-for-other-response", "the ETag also verifies for another response body".into());
                }
            } else if verdict.is_ok() {
                return bad("etag-accepted-without-key", "the server does not hold the key for the request's id, yet the client accepted its ETag".into());
            }
            metas.push((meta.clone(), body.clone(), etag.clone()));
        } else if etag.is_some() && !pq.contains("cup2key=") {
            return bad("etag-without-cup2key", "an ETag was sent although the request carried no cup2key".into());
        }
    }
    let kinds_differ = c.kinds.iter().any(|k| *k != c.kinds[0]);
    let historical = c.server_keys.len() > 1 || c.client_relation.contains("historical");
    let pathy = c.url.parts.path.len() > 1 || c.url.parts.query.is_some();
    let mut classes = c.url.classes.clone();
    classes.push("direct");
    classes.push(match c.client_relation {
        "no CUP" => "no_cup",
        "client latest = server latest" => "key_latest",
        "client latest = a server historical key" => "key_historical",
        _ => "key_unknown_to_server",
    });
    if sock.is_some() {
        classes.push("over_a_kept_alive_socket");
    }
    if events_only {
        classes.push("event_request");
    }
    if reconfigure {
        classes.push("reconfigured");
    }
    if c.require_cup {
        classes.push("require_cup");
    }
    if events_with_other_cohort {
        classes.push("event_request_with_adopted_cohort");
    }
    if mixed {
        classes.push("update_check_with_piggybacked_event");
    }
    if c.etag_override.is_some() {
        classes.push("forced_etag");
    }
    if pathy {
        classes.push("url_with_path_or_query");
    }
    Ok(CaseReport {
        key: hash_of(&case.to_string()),
        nontrivial: (c.apps.len() >= 2 && kinds_differ) || historical || pathy,
        classes,
        sample: ctx.want_sample.then(|| case.clone()),
        ambiguous: false,
    })
}

// ------------------------------------------------------------------------------------------
// end to end

struct MockTransport {
    server: Arc<TMutex<OmahaServer>>,
    seen: Arc<std::sync::Mutex<Vec<String>>>,
}
impl HttpRequest for MockTransport {
    fn request(&mut self, req: hyper::Request<hyper::Body>) -> BoxFuture<'_, Result<hyper::Response<Vec<u8>>, HttpError>> {
        let server = self.server.clone();
        let seen = self.seen.clone();
        async move {
            let (req, pq) = to_origin_form(req);
            lock(&seen).push(pq);
            let resp = handle_request(req, &server).await.map_err(|_| HttpError::new_timeout())?;
            let (parts, body) = resp.into_parts();
            let bytes = hyper::body::to_bytes(body).await.map_err(|_| HttpError::new_timeout())?.to_vec();
            Ok(hyper::Response::from_parts(parts, bytes))
        }
        .boxed()
    }
}

fn case_end_to_end(t: &mut Tape, ctx: &CaseCtx) -> CaseResult {
    let mut c = gen_cfg(t);
    if c.url.text.parse::<http::Uri>().is_err() {
        return Ok(CaseReport { key: hash_of(&c.url.text), classes: vec!["uri_rejected_by_http_crate"], ..Default::default() });
    }
    // one outcome for the whole run
    let outcome = t.weighted(&[3, 3, 2, 1, 2]); // noupdate, update, urgent, invalid response, forced etag
    let kind = [0usize, 1, 2, 3, 1][outcome];
    for k in c.kinds.iter_mut() {
        *k = if kind == 0 { 0 } else { *k };
    }
    let target = t.choose(c.apps.len());
    if kind != 0 {
        for (i, k) in c.kinds.iter_mut().enumerate() {
            *k = if i == target { kind } else { 0 };
        }
    }
    if outcome == 4 {
        c.etag_override = Some("00:00".into());
        if c.client_keys.is_none() {
            c.client_keys = Some(c.server_keys.clone());
            c.client_relation = "client latest = server latest";
            c.require_cup = t.flag();
        }
    }
    // the state machine decides its own parameters: a default policy answer => updates enabled, scheduled
    c.disable_updates = false;
    let case = json!({"apps": c.apps.iter().map(|a| a.id.clone()).collect::<Vec<_>>(), "kinds": c.kinds.iter().map(|k| format!("{:?}", KINDS[*k])).collect::<Vec<_>>(),
        "relation": c.client_relation, "require_cup": c.require_cup, "service_url": c.url.text, "outcome": (["no update", "update", "urgent update", "invalid response", "forced etag"][outcome])});
    let server = Arc::new(TMutex::new(server_of(&c)));
    let mut script = Script::default();
    script.apps = c.apps.clone();
    script.service_url = c.url.text.clone();
    script.cup = c.client_keys.clone().map(|keys| CupSpec { keys });
    let w = new_world(script);
    let seen = Arc::new(std::sync::Mutex::new(vec![]));
    let r = catch(|| {
        let mut m = Machine::build_with_http(&w, false, Some(Box::new(MockTransport { server: server.clone(), seen: seen.clone() })));
        let end = run_eager(&mut m, StopSpec { checks: 1, max_polls: 5000 });
        m.kill(false);
        end
    });
    let log = lock(&w).log.ops.clone();
    let bad = |sig: &str, msg: String| Err(Failure::new(sig, msg, json!({"case": case, "requests": lock(&seen).clone(), "events": log.iter().filter_map(|o| if let Op::Took(v) = o { Some(format!("{v:?}").chars().take(200).collect::<String>()) } else { None }).collect::<Vec<_>>()})));
    match r {
        Err((loc, msg)) => return bad(&format!("server-panic@{}", short_loc(&loc)), format!("panic while the real state machine talked to the in-process mock: {loc}: {msg}")),
        Ok(RunEnd::Completed) => {}
        Ok(other) => return bad("end-to-end-run", format!("the run ended {other:?}")),
    }
    let states: Vec<StateView> = log.iter().filter_map(|o| if let Op::Took(EventView::State(s)) = o { Some(*s) } else { None }).collect();
    let result = log.iter().find_map(|o| if let Op::Took(EventView::Result(r)) = o { Some(r.clone()) } else { None });
    let server_has_client_key = c.client_keys.as_ref().map(|k| c.server_keys.iter().any(|(id, _)| *id == k[0].0)).unwrap_or(true);
    let plan_body = log.iter().find_map(|o| if let Op::CreatePlan { body, .. } = o { Some(String::from_utf8_lossy(body).to_string()) } else { None });
    let expect_cup_failure = outcome == 4 || !server_has_client_key;
    let ok = if expect_cup_failure {
        matches!(&result, Some(ResultView::Err(e)) if e == "request:cup-validation")
    } else {
        match outcome {
            0 => states.contains(&StateView::NoUpdate) && matches!(&result, Some(ResultView::Ok(v)) if v.iter().all(|a| a.action == ActionView::NoUpdate) && v.len() == c.apps.len()),
            1 | 2 => {
                states.contains(&StateView::Installing)
                    && matches!(&result, Some(ResultView::Ok(v)) if v.iter().any(|a| a.id == c.apps[target].id && a.action == ActionView::Updated) && v.iter().filter(|a| a.action == ActionView::Updated).count() == 1)
                    && plan_body.as_ref().map(|b| b.contains("_urgent_update") == (outcome == 2)).unwrap_or(false)
            }
            _ => matches!(&result, Some(ResultView::Err(e)) if e == "parse"),
        }
    };
    if !ok {
        return bad("configured-outcome-not-reached", format!("configured outcome {:?} (CUP failure expected: {expect_cup_failure}) but the state machine announced states {states:?} and result {result:?}", case["outcome"]));
    }
    let mut classes = vec!["end_to_end", ["e2e_no_update", "e2e_update", "e2e_urgent_update", "e2e_invalid_response", "e2e_forced_etag"][outcome]];
    if !server_has_client_key {
        classes.push("e2e_key_unknown_to_server");
    }
    let pathy = c.url.parts.path.len() > 1 || c.url.parts.query.is_some();
    Ok(CaseReport {
        key: hash_of(&case.to_string()),
        nontrivial: pathy || c.server_keys.len() > 1 || c.apps.len() >= 2,
        classes,
        sample: ctx.want_sample.then(|| json!({"case": case, "requests": lock(&seen).clone(), "states": format!("{states:?}")})),
        ambiguous: false,
    })
}

pub fn case(t: &mut Tape, ctx: &CaseCtx) -> CaseResult {
    match t.choose(2) {
        0 => case_direct(t, ctx),
        _ => case_end_to_end(t, ctx),
    }
}

pub fn run(mut run: Run) -> i32 {
    run.replay_committed(&case);
    run.random("client-built requests -> handle_request", &[Tape::encode_choice(0, 2)], run.n(100_000, 1_000_000), 200, &case);
    run.random("state machine end to end against the in-process mock", &[Tape::encode_choice(1, 2)], run.n(40_000, 400_000), 200, &case);
    run.finish(
        RULE,
        300,
        &[
            "requests reach the server in origin form (path and query), as an HTTP/1.1 client sends them",
            "update-check requests name all configured apps (the mock asserts on that); event requests any non-empty subset",
            "ping-only requests are outside the statement (the mock asserts on them) and are not generated",
            "the update assertion is configured consistently with the client's request parameters",
        ],
    )
}

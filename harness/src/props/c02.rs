//! C02 — Unauthenticated responses never influence the updater.

use super::flow::*;
use crate::engine::*;
use crate::sim::{gen::*, types::*};
use crate::tape::Tape;
use serde_json::json;

pub const RULE: &str = "a case = a continuous-mode history of 1-4 checks with a REAL StandardCupv2Handler in which each request \
(update-check attempt, event report, ping in a reboot wait) is answered authentically or with one forgery kind: no ETag, \
garbage ETag, authentic signature over another body, signed with another registered / an unregistered key, replay of an \
earlier genuine response (whole response or ETag only). Forged responses are tempting: X-Retry-After, update offers, \
changed cohorts, daystart, any status. Oracle: (a) invariants after a forged update-check exchange: no further request, \
wait, server-response event, plan or install in that check; states [Checking, ErrorChecking]; result \
CupValidation; failures +1; poll interval, last-contact time, every app's cohort / day (next policy call, committed \
storage) unchanged; failure reason Internal; (b) forged event report: OmahaEventLost and a TWIN run in which that \
report is answered authentically (without tempting content) is identical in every later state, request (modulo ids), \
result, schedule, protocol state and final storage; (c) forged ping: failures +1, nothing else changes, no schedule \
announcement. non-trivial = a forged exchange was reached whose authentic twin would have had an observable effect; \
distinct by script hash.";

pub fn profile() -> Profile {
    Profile { cup: (1, 1), outcome_w: [8, 1, 1, 1, 2, 8, 1], offer_w: 5, retry_after: (1, 8), max_apps: 3, ..Default::default() }
}

fn proto_before(h: &Hist, upto: usize) -> Option<(ProtoView, SchedView, Vec<AppView>)> {
    h.log[..upto].iter().rev().find_map(|o| match o {
        Op::CheckAllowed { state, sched, apps, .. } | Op::NextTime { state, sched, apps, .. } => Some((*state, *sched, apps.clone())),
        _ => None,
    })
}

pub fn check_history(h: &Hist) -> Result<(bool, Vec<&'static str>, Vec<usize>), Failure> {
    let log = &h.log;
    let segs = crate::model::checks(log);
    let mut nontrivial = false;
    let mut classes: Vec<&'static str> = vec![];
    let mut forged_reports: Vec<usize> = vec![];
    let kind_of = |n: usize| log.iter().find_map(|o| if let Op::Http { n: m, view: Some(v), .. } = o { (*m == n).then_some(v.kind) } else { None });
    for (i, op) in log.iter().enumerate() {
        let Op::HttpDone { n, answer: HttpAnswer::Response { authentic: false, forgery, retry_after, body, status, .. } } = op else { continue };
        let around = Some((i.saturating_sub(6), (i + 16).min(log.len())));
        let kind = kind_of(*n);
        classes.push(match forgery.unwrap_or("") {
            "no etag" => "forgery_no_etag",
            "garbage etag" => "forgery_garbage_etag",
            "signature over another body" => "forgery_other_body",
            "signed with another registered key" => "forgery_other_registered_key",
            "signed with an unregistered key" => "forgery_unregistered_key",
            "replay of an earlier genuine response" => "forgery_replay_response",
            "etag of an earlier genuine exchange" => "forgery_replay_etag",
            _ => "forgery_other",
        });
        let tempting = !retry_after.is_empty() || matches!(body, BodyView::Doc(d) if d.apps.iter().any(|a| a.cohort.iter().any(|c| c.is_some()) || matches!(&a.uc, Some(u) if u.status == "ok")) || d.daystart.is_some());
        match kind {
            Some(ReqKind::UpdateCheck) => {
                let Some(seg) = segs.iter().find(|s| s.start <= i && i < s.end) else { continue };
                classes.push("forged_update_check");
                if tempting {
                    nontrivial = true;
                }
                let rest = &log[i + 1..seg.end];
                // nothing in it is acted upon: no retry, no wait, no event report, no announcement, no plan, no install
                for o in rest {
                    let bad = match o {
                        Op::Http { .. } => Some("a further request was sent (retry or event report)"),
                        Op::TimerFor { .. } => Some("a backoff wait was started"),
                        Op::Took(EventView::ServerResponse(_)) => Some("the response was announced to observers"),
                        Op::CreatePlan { .. } => Some("an install plan was created"),
                        Op::Install { .. } => Some("an install was started"),
                        Op::Took(EventView::State(s)) if !matches!(s, StateView::ErrorChecking) => Some("a state other than ErrorCheckingForUpdate was announced"),
                        _ => None,
                    };
                    if let Some(b) = bad {
                        return Err(failure("forged-update-check-acted-upon", format!("after a forged update-check response ({}; status {status}) {b}", forgery.unwrap_or("?")), h, around));
                    }
                }
                if seg.result_at.is_none() {
                    continue; // run stopped / crashed before the result
                }
                match seg_result(h, seg) {
                    Some(ResultView::Err(e)) if e == "request:cup-validation" => {}
                    other => return Err(failure("forged-update-check-result", format!("a forged update-check response must end the check with a CUP validation error, got {other:?}"), h, around)),
                }
                if !rest.iter().any(|o| matches!(o, Op::Took(EventView::State(StateView::ErrorChecking)))) {
                    return Err(failure("forged-update-check-no-error-state", "ErrorCheckingForUpdate was not announced".to_string(), h, around));
                }
                if !rest.iter().any(|o| matches!(o, Op::Metric(MetricView::FailureReason("internal")))) && !h.script.metrics_fail {
                    return Err(failure("forged-update-check-failure-reason", "failure reason metric is not Internal".to_string(), h, around));
                }
                // counted as exactly one failed check; nothing else changes
                let Some((p0, s0, a0)) = proto_before(h, seg.start) else { continue };
                // poll interval may have been changed legitimately by EARLIER authentic attempts of the same check
                let poll_before_forgery = log[seg.start..i].iter().rev().find_map(|o| if let Op::Took(EventView::Protocol(p)) = o { Some(p.poll) } else { None }).unwrap_or(p0.poll);
                let final_proto = rest.iter().find_map(|o| if let Op::Took(EventView::Protocol(p)) = o { Some(*p) } else { None });
                let final_sched = rest.iter().find_map(|o| if let Op::Took(EventView::Schedule(s)) = o { Some(*s) } else { None });
                if let Some(p) = final_proto {
                    if p.failures != p0.failures + 1 {
                        return Err(failure("forged-update-check-failure-count", format!("consecutive failures went from {} to {}: a forged response counts as exactly one failed check", p0.failures, p.failures), h, around));
                    }
                    if p.poll != poll_before_forgery {
                        return Err(failure("forged-update-check-poll-interval", format!("the poll interval changed from {poll_before_forgery:?} to {:?} on a forged response", p.poll), h, around));
                    }
                }
                if let Some(s) = final_sched {
                    if s.last_update_time != s0.last_update_time {
                        return Err(failure("forged-update-check-last-contact", format!("the last-contact time changed from {:?} to {:?} on a forged response", s0.last_update_time, s.last_update_time), h, around));
                    }
                }
                // apps as shown to the next policy call
                if let Some(a1) = log[seg.end..].iter().find_map(|o| match o {
                    Op::NextTime { apps, .. } => Some(apps),
                    _ => None,
                }) {
                    if *a1 != a0 {
                        return Err(failure("forged-update-check-apps-changed", format!("cohort / user counting changed on a forged response: {a0:?} -> {a1:?}"), h, around));
                    }
                }
            }
            Some(ReqKind::Events) | Some(ReqKind::Other) => {
                classes.push("forged_event_report");
                forged_reports.push(*n);
                nontrivial = true;
                // exactly one request for it is implied by the twin comparison; the lost-event metric must be there
                let lost = log[i + 1..].iter().take_while(|o| !matches!(o, Op::Http { .. })).any(|o| matches!(o, Op::Metric(MetricView::EventLost(_))));
                let n_events = log.iter().find_map(|o| if let Op::Http { n: m, view: Some(v), .. } = o { (m == n).then(|| v.apps.iter().map(|a| a.events.len()).sum::<usize>()) } else { None }).unwrap_or(0);
                if !lost && n_events > 0 {
                    return Err(failure("forged-report-not-counted-lost", "a forged event-report response was not recorded as a lost event".to_string(), h, around));
                }
            }
            Some(ReqKind::Ping) => {
                classes.push("forged_ping");
                if tempting {
                    nontrivial = true;
                }
                let Some((p0, s0, a0)) = proto_before(h, i) else { continue };
                // until the next policy call: no schedule announcement, then failures +1 and nothing else
                let mut j = i + 1;
                while j < log.len() {
                    match &log[j] {
                        Op::Took(EventView::Schedule(_)) => return Err(failure("forged-ping-schedule-announced", "a forged ping response led to a schedule announcement".to_string(), h, around)),
                        Op::NextTime { state, sched, apps, .. } => {
                            if state.failures != p0.failures + 1 {
                                return Err(failure("forged-ping-failure-count", format!("failures {} -> {} after a forged ping", p0.failures, state.failures), h, around));
                            }
                            if state.poll != p0.poll || sched.last_update_time != s0.last_update_time || *apps != a0 {
                                return Err(failure("forged-ping-state-changed", format!("a forged ping changed poll interval / last-contact / apps: {:?} {:?} -> {:?} {:?}", p0.poll, s0.last_update_time, state.poll, sched.last_update_time), h, around));
                            }
                            // and it is persisted
                            let c = committed_at(log, j, &h.script);
                            let stored = match c.get("consecutive_failed_update_checks") {
                                Some(SVal::I(v)) => *v,
                                _ => 0,
                            };
                            if stored != (p0.failures + 1) as i64 {
                                return Err(failure("forged-ping-not-persisted", format!("failure count after a forged ping is stored as {stored}, expected {}", p0.failures + 1), h, around));
                            }
                            break;
                        }
                        Op::MachineDropped | Op::Crash { .. } | Op::Reboot { .. } => break,
                        _ => {}
                    }
                    j += 1;
                }
            }
            None => {}
        }
    }
    classes.sort();
    classes.dedup();
    Ok((nontrivial, classes, forged_reports))
}

/// what must be identical between a run and its twin (ids and nonces are library-chosen: dropped)
fn projection(h: &Hist) -> Vec<String> {
    let mut out: Vec<String> = h
        .log
        .iter()
        .filter_map(|o| match o {
            Op::Took(EventView::State(s)) => Some(format!("state {s:?}")),
            Op::Took(EventView::Result(r)) => Some(format!("result {r:?}")),
            Op::Took(EventView::Protocol(p)) => Some(format!("proto {p:?}")),
            Op::Took(EventView::ServerResponse(r)) => Some(format!("server-response {r:?}")),
            Op::Took(EventView::Schedule(s)) => Some(format!("sched last_update_time set={} next={:?}", s.last_update_time.is_some(), s.next_update.map(|n| n.min_wait))),
            Op::Http { view: Some(v), .. } => Some(format!("request {:?} {:?} {} {:?}", v.kind, v.apps, v.install_source, v.interactivity)),
            Op::CreatePlan { answer, .. } => Some(format!("plan {answer:?}")),
            Op::Install { plan_id } => Some(format!("install {plan_id}")),
            Op::Reboot { .. } => Some("reboot".into()),
            Op::CanStart { answer, .. } => Some(format!("can_start {answer}")),
            _ => None,
        })
        .collect();
    // final committed storage without clock-dependent values
    for (k, v) in &h.storage.committed {
        if !k.contains("time") {
            out.push(format!("stored {k}={v:?}"));
        }
    }
    out
}

pub fn case(t: &mut Tape, ctx: &CaseCtx) -> CaseResult {
    let lives = vec![LifePlan::new(false, 1 + t.choose(4), None)];
    let mut script = gen_script(t, &profile());
    let with_pings = t.flag();
    if with_pings {
        script.reboot_needed = vec![true; 4];
        script.reboot_allowed = vec![(false, false); 8];
        script.reboot_allowed.push((true, true));
        script.can_start = vec![];
        script.plans = vec![];
    } else {
        script.reboot_allowed = vec![];
    }
    if with_pings && t.flag() {
        // ping focus: a clean update first, so that the generated (largely forged) answers meet the pings
        let ok = |body: BodySpec| HttpSpec::Resp(RespSpec { status: 200, retry_after: vec![], retry_after_name_case: 0, body, auth: Auth::Authentic, prefix: false });
        let mut pre = vec![ok(BodySpec::Doc(super::c05::offer_doc(&script.apps), 0))];
        for _ in 0..3 {
            pre.push(ok(BodySpec::DefaultNoUpdate));
        }
        pre.extend(script.http.drain(..));
        script.http = pre;
        script.installs = vec![];
        script.check_decisions = vec![];
    }
    if t.chance(1, 3) {
        // replies labelled with unauthenticated headers (Content-Type text/html, Content-Length 0, cache headers)
        script.content_type_mask = t.raw();
    }
    let h = run_history(script.clone(), &lives);
    let (nontrivial, mut classes, forged_reports) = check_history(&h)?;
    if !forged_reports.is_empty() && !with_pings {
        // twin: the forged reports answered authentically, with nothing tempting in them but the same retry-after
        // absence: the authentic twin response carries the CURRENT poll interval so that it changes nothing either
        let mut twin = script.clone();
        let mut comparable = true;
        for n in &forged_reports {
            // poll interval in force when the report was sent
            let pos = h.log.iter().position(|o| matches!(o, Op::HttpDone { n: m, .. } if m == n)).unwrap();
            let poll = h.log[..pos].iter().rev().find_map(|o| match o {
                Op::Took(EventView::Protocol(p)) => Some(p.poll),
                Op::CheckAllowed { state, .. } | Op::NextTime { state, .. } => Some(state.poll),
                _ => None,
            });
            let ra = match poll.flatten() {
                Some(d) if d.subsec_nanos() == 0 => vec![d.as_secs().to_string().into_bytes()],
                Some(_) => {
                    comparable = false;
                    vec![]
                }
                None => vec![],
            };
            if let Some(slot) = twin.http.get_mut(*n) {
                *slot = HttpSpec::Resp(RespSpec { status: 200, retry_after: ra, retry_after_name_case: 0, body: BodySpec::DefaultNoUpdate, auth: Auth::Authentic, prefix: false });
            }
        }
        // replays refer to "earlier genuine responses": making a forged exchange genuine shifts those indices
        let has_replay = script.http.iter().any(|s| matches!(s, HttpSpec::Resp(r) if matches!(r.auth, Auth::ReplayResponse(_) | Auth::ReplayEtag(_))));
        if comparable && !has_replay {
            let h2 = run_history(twin, &lives);
            let (a, b) = (projection(&h), projection(&h2));
            // the only permitted difference: none (lost-event metrics are not in the projection)
            if a != b {
                let first = a.iter().zip(&b).position(|(x, y)| x != y).unwrap_or(a.len().min(b.len()));
                return Err(failure(
                    "forged-report-changed-something",
                    format!("a forged event-report response changed the run: with the forgery {:?}, with an authentic answer {:?}", a.get(first), b.get(first)),
                    &h,
                    None,
                ));
            }
            classes.push("twin_compared");
        }
    }
    Ok(CaseReport {
        key: hash_of(&format!("{:?}{:?}", h.script, lives)),
        nontrivial,
        classes,
        sample: ctx.want_sample.then(|| json!({"lives": format!("{lives:?}"), "http_script": script_json(&h.script)["http"], "cup_keys": h.script.cup.as_ref().map(|c| c.keys.clone())})),
        ambiguous: false,
    })
}

pub fn run(mut run: Run) -> i32 {
    run.replay_committed(&case);
    run.random("CUP histories with forgeries", &[], run.n(100_000, 1_000_000), 700, &case);
    run.finish(
        RULE,
        300,
        &[
            "the forging server is the harness's independent signer (sha2 + p256)",
            "twin comparison is skipped when the script contains replay forgeries (making a forged exchange genuine shifts what 'earlier genuine response' refers to) or pings (select! ties in the reboot wait)",
        ],
    )
}

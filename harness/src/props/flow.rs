//! Shared machinery of the history-based properties: run a script through the simulated world,
//! evaluate every check with the reference model, and the per-property monitors (each asserts
//! only the projection its statement fixes).

use crate::engine::*;
use crate::model::*;
use crate::sim::{exec::*, types::*, world::*};
use serde_json::{json, Value};
use std::time::Duration;

#[derive(Clone, Copy, Debug)]
pub struct LifePlan {
    pub oneshot: bool,
    pub checks: usize,
    pub crash_at: Option<usize>,
    /// wall clock set to this value (ns from the epoch) when the life starts (time passes / clock is reset between boots)
    pub wall_at_start: Option<i128>,
}
impl LifePlan {
    pub fn new(oneshot: bool, checks: usize, crash_at: Option<usize>) -> LifePlan {
        LifePlan { oneshot, checks, crash_at, wall_at_start: None }
    }
}

pub struct Hist {
    pub script: Script,
    pub log: Vec<Op>,
    /// simulated clock (wall ns, mono ns) at every log entry
    pub stamps: Vec<(i128, i128)>,
    pub ends: Vec<RunEnd>,
    pub storage: StorageModel,
    pub interactions: usize,
}

pub fn run_history(script: Script, lives: &[LifePlan]) -> Hist {
    let w = new_world(script.clone());
    let mut ends = vec![];
    for lp in lives {
        {
            let mut g = lock(&w);
            g.crash_at = lp.crash_at.map(|k| g.interactions + k);
            if let Some(w) = lp.wall_at_start {
                g.wall_ns = w;
                g.log.now = (g.wall_ns, g.mono_ns);
            }
        }
        let mut m = Machine::build(&w, lp.oneshot);
        let end = run_eager(&mut m, StopSpec { checks: lp.checks, max_polls: 20_000 });
        let crashed = end == RunEnd::Crashed;
        m.kill(true);
        let _ = crashed;
        ends.push(end);
    }
    let g = lock(&w);
    Hist { script, log: g.log.ops.clone(), stamps: g.log.stamps.clone(), ends, storage: g.storage.clone(), interactions: g.interactions }
}

pub fn app_views(s: &Script) -> Vec<AppView> {
    s.apps.iter().map(|a| app_view(&build_app(a))).collect()
}

/// harness-side decode of the committed poll interval (microseconds, non-negative)
pub fn stored_poll(st: &std::collections::BTreeMap<String, SVal>) -> Option<Duration> {
    match st.get("server_dictated_poll_interval") {
        Some(SVal::I(us)) if *us >= 0 => Some(Duration::from_micros(*us as u64)),
        _ => None,
    }
}

pub struct CheckEval {
    pub seg: CheckSeg,
    pub params: ParamsView,
    /// apps as shown to the policy at the start of the check (continuous) / static app set (one-shot)
    pub apps: Vec<AppView>,
    pub poll_at_start: Option<Duration>,
    pub poll_known: bool,
    pub expect: Expect,
}

/// Evaluate every check of a history with the reference model.
pub fn evaluate(h: &Hist) -> Vec<CheckEval> {
    let segs = checks(&h.log);
    let mut out = vec![];
    // model poll interval, tracked linearly through the log
    let mut poll: Option<Duration> = None;
    let mut poll_known = true;
    let mut committed = h.script.storage_init.iter().cloned().collect::<std::collections::BTreeMap<_, _>>();
    let mut seg_iter = segs.into_iter().peekable();
    let statics = app_views(&h.script);
    let mut i = 0;
    while i < h.log.len() {
        if let Some(seg) = seg_iter.peek() {
            if seg.start == i || (seg.start < i) {
                let seg = seg_iter.next().unwrap();
                let (params, apps) = match seg.allowed {
                    Some(a) => match &h.log[a] {
                        Op::CheckAllowed { answer, apps, .. } => (params_of(answer), apps.clone()),
                        _ => unreachable!(),
                    },
                    None => (ParamsView::default(), statics.clone()),
                };
                let mut inp = inputs_of(&h.log, &seg, &apps, params, poll);
                // a junk service URL: the check may end in a construction failure without any exchange
                if h.script.junk_service_url && !h.log[seg.start..seg.end].iter().any(|o| matches!(o, Op::Http { .. })) {
                    if let Some(Op::Took(EventView::Result(ResultView::Err(class)))) = seg.result_at.map(|r| &h.log[r]) {
                        if matches!(class.as_str(), "request:http-builder" | "request:cup-decoration" | "request:json") {
                            inp.construction_failure = Some(class.clone());
                        }
                    }
                }
                let mut expect = walk_check(&inp);
                // a check is only judged against the model when it ran to its result (otherwise the log was cut short)
                if seg.result_at.is_none() {
                    expect.complete = false;
                }
                // poll after the check: last reading
                if let Some(last) = expect.poll_trace.last() {
                    match last {
                        PollReading::Is(v) => poll = *v,
                        PollReading::OneOf(_) => poll_known = false,
                    }
                }
                // commits inside the segment
                for op in &h.log[seg.start..seg.end] {
                    if let Op::Committed { .. } = op {}
                }
                i = seg.end.max(i + 1);
                let poll_at_start = inp.poll_at_start;
                drop(inp);
                out.push(CheckEval { seg, params, apps, poll_at_start, poll_known, expect });
                continue;
            }
        }
        match &h.log[i] {
            Op::HttpDone { answer: HttpAnswer::Response { authentic: true, retry_after, .. }, .. } => match read_retry_after(retry_after) {
                PollReading::Is(v) => poll = v,
                PollReading::OneOf(_) => poll_known = false,
            },
            Op::Build { .. } => {
                // restart: the model continues from what the harness storage holds as committed
                let _ = &committed;
                poll = stored_poll_at(&h.log, i, &h.script);
                poll_known = true;
            }
            Op::Committed { .. } => {
                committed.clear();
            }
            _ => {}
        }
        i += 1;
    }
    out
}

/// The committed storage contents at log position `pos`, replayed by the harness from the log.
pub fn committed_at(log: &[Op], pos: usize, script: &Script) -> std::collections::BTreeMap<String, SVal> {
    let mut committed: std::collections::BTreeMap<String, SVal> = script.storage_init.iter().cloned().collect();
    let mut pending: std::collections::BTreeMap<String, Option<SVal>> = Default::default();
    for op in &log[..pos] {
        match op {
            Op::Storage { op: SOp::SetString | SOp::SetInt | SOp::SetBool, key, value, ok: true } => {
                pending.insert(key.clone(), value.clone());
            }
            Op::Storage { op: SOp::Remove, key, ok: true, .. } => {
                pending.insert(key.clone(), None);
            }
            Op::Committed { .. } => {
                for (k, v) in std::mem::take(&mut pending) {
                    match v {
                        Some(v) => {
                            committed.insert(k, v);
                        }
                        None => {
                            committed.remove(&k);
                        }
                    }
                }
            }
            Op::MachineDropped | Op::Crash { .. } => pending.clear(),
            _ => {}
        }
    }
    committed
}
pub fn stored_poll_at(log: &[Op], pos: usize, script: &Script) -> Option<Duration> {
    stored_poll(&committed_at(log, pos, script))
}

pub fn ops_json(log: &[Op], from: usize, to: usize) -> Vec<String> {
    log[from..to.min(log.len())]
        .iter()
        .map(|o| {
            let s = format!("{o:?}");
            if s.len() > 300 {
                format!("{}…", &s[..s.char_indices().take(300).last().map(|(i, _)| i).unwrap_or(0)])
            } else {
                s
            }
        })
        .collect()
}

pub fn script_json(s: &Script) -> Value {
    let http: Vec<String> = s
        .http
        .iter()
        .map(|h| match h {
            HttpSpec::Transport => "transport error".to_string(),
            HttpSpec::Timeout => "timeout".to_string(),
            HttpSpec::UserError => "caller error".to_string(),
            HttpSpec::Resp(r) => format!(
                "{} {}{}{} body={}",
                r.status,
                match &r.auth {
                    Auth::Authentic => "authentic".to_string(),
                    a => format!("FORGED({a:?})"),
                },
                if r.retry_after.is_empty() { String::new() } else { format!(" retry-after={:?}", r.retry_after.iter().map(|v| String::from_utf8_lossy(v).to_string()).collect::<Vec<_>>()) },
                if r.prefix { " xssi-prefix" } else { "" },
                match &r.body {
                    BodySpec::DefaultNoUpdate => "noupdate-for-all".to_string(),
                    BodySpec::Doc(x, _) => format!(
                        "doc[{}]",
                        x.apps.iter().map(|a| format!("{}:{}:{}", a.id, a.status, a.uc.as_ref().map(|u| u.status.as_str()).unwrap_or("-"))).collect::<Vec<_>>().join(",")
                    ),
                    BodySpec::Raw(r) => format!("raw:{}", format!("{r:?}").chars().take(24).collect::<String>()),
                }
            ),
        })
        .collect();
    json!({
        "apps": s.apps.iter().map(|a| format!("{a:?}")).collect::<Vec<_>>(),
        "system_app": s.system_app, "service_url": s.service_url, "cup_keys": s.cup.as_ref().map(|c| c.keys.clone()),
        "http": http, "check_decisions": s.check_decisions.iter().map(|d| format!("{d:?}")).collect::<Vec<_>>(),
        "timings": s.timings.iter().map(|d| format!("{d:?}")).collect::<Vec<_>>(),
        "can_start": s.can_start, "reboot_needed": s.reboot_needed, "reboot_allowed": s.reboot_allowed,
        "plans": s.plans, "installs": s.installs.iter().map(|d| format!("{d:?}")).collect::<Vec<_>>(), "reboots": s.reboots,
        "storage_init": s.storage_init.iter().map(|d| format!("{d:?}")).collect::<Vec<_>>(),
        "faults": format!("{:?}", s.faults), "clock": s.clock.iter().map(|d| format!("{d:?}")).collect::<Vec<_>>(),
        "metrics_fail": s.metrics_fail, "os_version": s.os_version,
    })
}

pub fn failure(sig: &str, msg: String, h: &Hist, around: Option<(usize, usize)>) -> Failure {
    let (a, b) = around.unwrap_or((0, h.log.len().min(80)));
    Failure::new(sig, msg, json!({"script": script_json(&h.script), "log_excerpt": ops_json(&h.log, a, b)}))
}

// ------------------------------------------------------------------------------------------
// projections of a check segment

pub fn seg_states(h: &Hist, s: &CheckSeg) -> Vec<StateView> {
    h.log[s.start..s.end].iter().filter_map(|o| if let Op::Took(EventView::State(st)) = o { Some(*st) } else { None }).collect()
}
pub fn seg_requests<'a>(h: &'a Hist, s: &CheckSeg) -> Vec<(usize, &'a ReqView, &'a Vec<u8>, &'a str)> {
    h.log[s.start..s.end]
        .iter()
        .filter_map(|o| if let Op::Http { n, view: Some(v), body, uri, .. } = o { Some((*n, v, body, uri.as_str())) } else { None })
        .collect()
}
pub fn seg_result<'a>(h: &'a Hist, s: &CheckSeg) -> Option<&'a ResultView> {
    s.result_at.and_then(|i| if let Op::Took(EventView::Result(r)) = &h.log[i] { Some(r) } else { None })
}

/// Compare the actual result with the expected one.
pub fn result_matches(got: &ResultView, want: &ResultExpect) -> Result<(), String> {
    match (got, want) {
        (ResultView::Err(g), ResultExpect::Err(w)) if g == w => Ok(()),
        (ResultView::Ok(g), ResultExpect::Ok(w)) => {
            if g.len() != w.len() {
                return Err(format!("result lists {} apps, response lists {}", g.len(), w.len()));
            }
            for (i, (ga, (id, cohort, days, acts))) in g.iter().zip(w).enumerate() {
                if &ga.id != id {
                    return Err(format!("result app #{i} is {:?}, response order says {id:?}", ga.id));
                }
                if !acts.contains(&ga.action) {
                    return Err(format!("app {id:?}: action {:?}, it actually received {acts:?}", ga.action));
                }
                if &ga.cohort != cohort || &ga.days != days {
                    return Err(format!("app {id:?}: result carries cohort {:?} / days {:?}, response says {cohort:?} / {days:?}", ga.cohort, ga.days));
                }
            }
            Ok(())
        }
        _ => Err(format!("result {got:?}, expected {want:?}")),
    }
}

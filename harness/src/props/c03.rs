//! C03 — Every CUP request is freshly and faithfully decorated.

use crate::cupref::*;
use crate::engine::*;
use crate::props::c01::gen_ids;
use crate::props::c15::header_safe;
use crate::tape::Tape;
use crate::urlref::*;
use futures::executor::block_on;
use omaha_client::{
    common::App,
    configuration::{Config, Updater},
    cup_ecdsa::{RequestMetadata, StandardCupv2Handler},
    protocol::request::{Event, EventType, InstallSource, GUID, OS},
    request_builder::{RequestBuilder, RequestParams},
    version::Version,
};
use serde_json::json;
use std::collections::HashSet;
use std::sync::Mutex;

pub const RULE: &str = "mode 0 (builder level): service URLs from a grammar (http/https, userinfo, reg-name/IPv4/IPv6/zone \
hosts, port, absent/root/segment paths with pct-escapes, absent/empty/pair/decoy-cup2key queries) x key sets (latest + 0-3 \
historical) x app sets and request contents; RequestBuilder::build(Some(handler)) is called 3 times and the wire URI is \
compared with an independent split of the configured string (same scheme/authority/path, query = original [+&] + exactly \
one cup2key=<latest id>:<64 lower-hex>), metadata body == wire body, key id == latest, nonce == wire digits, nonces \
pairwise distinct (also across the whole process). mode 1 (wire level): every request of simulated update-check histories \
with retries, event reports and pings (see C02/C06 machinery). non-trivial = URL with a non-empty query, IPv6 literal, port \
or absent path, or a history with >= 1 retry / event report; distinct by case hash.";

static ALL_NONCES: Mutex<Option<HashSet<[u8; 32]>>> = Mutex::new(None);

/// Records a nonce process-wide; false if it was seen before.
pub fn nonce_is_fresh(n: [u8; 32]) -> bool {
    let mut g = lock(&ALL_NONCES);
    g.get_or_insert_with(HashSet::new).insert(n)
}

/// Checks one decorated request against the configured URL. Returns the nonce.
pub fn check_decorated(
    configured: &UrlParts,
    wire_uri: &str,
    wire_body: &[u8],
    meta: &RequestMetadata,
    latest_id: u64,
) -> Result<[u8; 32], (String, String)> {
    let err = |sig: &str, msg: String| Err((sig.to_string(), msg));
    let Some(w) = split_url(wire_uri) else { return err("wire-uri-unsplittable", format!("wire URI {wire_uri:?}")) };
    if w.scheme != configured.scheme || w.authority != configured.authority {
        return err("scheme-or-authority-changed", format!("wire {wire_uri:?} vs configured {configured:?}"));
    }
    if !same_path(&w.path, &configured.path) {
        return err("path-changed", format!("wire path {:?} vs configured {:?}", w.path, configured.path));
    }
    let Some(wq) = &w.query else { return err("no-query-on-wire", format!("wire URI {wire_uri:?} has no query")) };
    let param = match &configured.query {
        Some(q) => {
            let want_prefix = format!("{q}&");
            match wq.strip_prefix(&want_prefix) {
                Some(rest) => rest.to_string(),
                None => return err("existing-query-not-kept", format!("wire query {wq:?} does not start with the configured query {q:?} + '&'")),
            }
        }
        None => wq.clone(),
    };
    let want_head = format!("cup2key={latest_id}:");
    let Some(digits) = param.strip_prefix(&want_head) else {
        return err("cup2key-param-shape", format!("added parameter {param:?} does not start with {want_head:?}"));
    };
    if digits.len() != 64 || !digits.bytes().all(|b| b.is_ascii_digit() || (b'a'..=b'f').contains(&b)) {
        return err("cup2key-nonce-shape", format!("nonce {digits:?} is not 64 lower-case hex digits"));
    }
    let before = configured.query.as_deref().map(|q| q.matches("cup2key=").count()).unwrap_or(0);
    if wq.matches("cup2key=").count() != before + 1 {
        return err("cup2key-count", format!("wire query {wq:?} contains {} cup2key parameters, expected {}", wq.matches("cup2key=").count(), before + 1));
    }
    if meta.request_body != wire_body {
        return err("metadata-body-differs", format!("metadata body ({} bytes) != wire body ({} bytes)", meta.request_body.len(), wire_body.len()));
    }
    if meta.public_key_id != latest_id {
        return err("metadata-key-id", format!("metadata key id {} != latest id {latest_id}", meta.public_key_id));
    }
    let nonce: [u8; 32] = meta.nonce.into();
    if hex::encode(nonce) != digits {
        return err("metadata-nonce", format!("metadata nonce {} != wire nonce {digits}", hex::encode(nonce)));
    }
    Ok(nonce)
}

fn case_direct(t: &mut Tape, ctx: &CaseCtx) -> CaseResult {
    let url = gen_url(t);
    let nk = 1 + t.choose(4);
    let ids = gen_ids(t, nk);
    let first = t.choose(POOL);
    let keys: Vec<(u64, usize)> = ids.iter().enumerate().map(|(i, id)| (*id, (first + i) % POOL)).collect();
    let napps = 1 + t.choose(3);
    let apps: Vec<App> = (0..napps)
        .map(|i| {
            // request contents: cohorts, fingerprints and 0-8 extra fields per app (the serialised body must be byte-for-byte
            // what the metadata retains, whatever the contents)
            let extras: std::collections::HashMap<String, String> = (0..t.choose(9)).map(|k| (format!("extra-{k}-{}", t.ident(3)), t.text(6))).collect();
            let mut a = App::builder().id(format!("{}{i}", header_safe(t, 6))).version([1 + t.choose(9) as u32, t.u32_biased()]).extra_fields(extras).build();
            a.cohort.hint = t.option(|t| t.text(5));
            a.fingerprint = t.option(|t| t.ident(5));
            a
        })
        .collect();
    let kind = t.choose(3);
    let params = RequestParams { source: if t.flag() { InstallSource::OnDemand } else { InstallSource::ScheduledTask }, ..Default::default() };
    let case = json!({"service_url": url.text, "keys(id,pool)": keys, "apps": napps, "kind": (["update check", "ping", "event"][kind])});
    if url.text.parse::<http::Uri>().is_err() {
        return Ok(CaseReport { key: hash_of(&url.text), classes: vec!["uri_rejected_by_http_crate"], ..Default::default() });
    }
    let config = Config {
        updater: Updater { name: "verif".into(), version: Version::from([1]) },
        os: OS::default(),
        service_url: url.text.clone(),
        omaha_public_keys: None,
    };
    let handler = StandardCupv2Handler::new(&public_keys(keys[0], &keys[1..]));
    let mut rb = RequestBuilder::new(&config, &params);
    for a in &apps {
        rb = match kind {
            0 => rb.add_update_check(a).add_ping(a),
            1 => rb.add_ping(a),
            _ => rb.add_event(a, Event::success(EventType::UpdateComplete)),
        };
    }
    rb = rb.session_id(GUID::new()).request_id(GUID::new());
    let mut nonces = vec![];
    for round in 0..3 {
        let (req, meta) = match rb.build(Some(&handler)) {
            Ok(x) => x,
            Err(e) => {
                // the library may reject a URL with an error (counted, trivial), never panic
                return Ok(CaseReport { key: hash_of(&url.text), classes: vec!["decoration_error"], sample: ctx.want_sample.then(|| json!({"case": case, "error": format!("{e:?}")})), ..Default::default() });
            }
        };
        let Some(meta) = meta else { return Err(Failure::new("no-metadata", "build with a CUP handler returned no request metadata".to_string(), case)) };
        let (parts, body) = req.into_parts();
        let body = block_on(hyper::body::to_bytes(body)).unwrap().to_vec();
        let uri = parts.uri.to_string();
        if parts.method != http::Method::POST {
            return Err(Failure::new("method", format!("method {}", parts.method), case));
        }
        match check_decorated(&url.parts, &uri, &body, &meta, keys[0].0) {
            Ok(n) => {
                if nonces.contains(&n) || !nonce_is_fresh(n) {
                    return Err(Failure::new("nonce-reused", format!("nonce {} used twice (build #{round})", hex::encode(n)), case));
                }
                nonces.push(n);
            }
            Err((sig, msg)) => return Err(Failure::new(sig, format!("{msg} [configured {}; wire {uri}]", url.text), case)),
        }
    }
    // the same handler then serves a client configured with a related service URL (a prefix, a sibling, an extension of
    // the first): nothing of the earlier URL may leak into the later request
    let mut second_url = false;
    if t.chance(1, 3) {
        let p = &url.parts;
        let base = format!("{}://{}", p.scheme, p.authority);
        let text2 = match t.choose(4) {
            0 => format!("{base}{}", p.path),                                                                  // query dropped
            1 => format!("{base}{}", p.path.rsplit_once('/').map(|(a, _)| a).unwrap_or("")),                   // last segment dropped
            2 => format!("{base}/"),                                                                           // root
            _ => format!("{base}{}{}x", p.path, if p.path.ends_with('/') { "" } else { "/" }),                 // one segment more
        };
        if let (Some(parts2), true) = (crate::urlref::split_url(&text2), text2.parse::<http::Uri>().is_ok()) {
            let config2 = Config { service_url: text2.clone(), ..config.clone() };
            let rb2 = RequestBuilder::new(&config2, &params).add_update_check(&apps[0]).session_id(GUID::new()).request_id(GUID::new());
            if let Ok((req, Some(meta))) = rb2.build(Some(&handler)) {
                let (parts, body) = req.into_parts();
                let body = block_on(hyper::body::to_bytes(body)).unwrap().to_vec();
                let uri = parts.uri.to_string();
                match check_decorated(&parts2, &uri, &body, &meta, keys[0].0) {
                    Ok(n) => {
                        if nonces.contains(&n) {
                            return Err(Failure::new("nonce-reused", format!("nonce {} used twice (second configuration)", hex::encode(n)), case));
                        }
                    }
                    Err((sig, msg)) => return Err(Failure::new(sig, format!("{msg} [same handler, second configuration {text2} after {}; wire {uri}]", url.text), case)),
                }
                second_url = true;
            }
        }
    }
    let nontrivial = url.parts.query.as_deref().map(|q| !q.is_empty()).unwrap_or(false)
        || url.classes.iter().any(|c| ["ipv6", "ipv6_zone", "port", "path_absent"].contains(c));
    let mut classes = url.classes.clone();
    classes.push("direct");
    if keys.len() > 1 {
        classes.push("historical_keys");
    }
    if second_url {
        classes.push("handler_shared_with_a_second_service_url");
    }
    Ok(CaseReport { key: hash_of(&case.to_string()), nontrivial, classes, sample: ctx.want_sample.then(|| case.clone()), ambiguous: false })
}

pub fn case(t: &mut Tape, ctx: &CaseCtx) -> CaseResult {
    match t.choose(2) {
        0 => case_direct(t, ctx),
        _ => crate::props::wire::case_c03_wire(t, ctx),
    }
}

pub fn run(mut run: Run) -> i32 {
    run.replay_committed(&case);
    run.random("builder level", &[Tape::encode_choice(0, 2)], run.n(200_000, 3_000_000), 120, &case);
    run.random("wire level (simulated histories)", &[Tape::encode_choice(1, 2)], run.n(60_000, 600_000), 400, &case);
    run.finish(
        RULE,
        500,
        &[
            "only URL strings http::Uri accepts are judged; strings the library rejects with an error are counted as trivial",
            "fragments are not generated (http::Uri drops them; the statement does not mention them)",
            "nonce freshness is checked over all requests this process builds (birthday collisions of 256-bit nonces are negligible)",
        ],
    )
}

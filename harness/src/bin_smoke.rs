use omaha_verif::sim::{exec::*, types::*, world::*};
fn main() {
    let mut s = Script::default();
    s.installs = vec![InstallSpec { results: vec![0], progress: vec![0.5, 1.0], concurrent: 0 }];
    let w = new_world(s);
    let mut m = Machine::build(&w, false);
    let end = run_eager(&mut m, StopSpec { checks: 2, max_polls: 10000 });
    println!("end = {end:?}");
    for op in omaha_verif::engine::lock(&w).log.iter() { println!("{op:?}"); }
}

#![no_main]
//! One target for all history-based properties: the first byte selects the property, the rest is the tape of a
//! full scenario run through the simulated world and that property's monitors (coverage guidance reaches deep
//! conjunctions that uniform generation hits rarely).
use libfuzzer_sys::fuzz_target;
use omaha_verif::{engine::CaseCtx, props, tape::Tape};

fuzz_target!(|data: &[u8]| {
    if data.is_empty() {
        return;
    }
    let table = props::fuzz_sim_table();
    // FUZZ_SIM_ONLY=<ID> pins the campaign to one property
    let pinned = std::env::var("FUZZ_SIM_ONLY").ok().and_then(|id| table.iter().position(|(i, _)| *i == id));
    let (id, case) = table[pinned.unwrap_or(data[0] as usize % table.len())];
    let mut t = Tape::from_bytes(&data[1..]);
    let ctx = CaseCtx { want_sample: false, replay: false };
    if let Err(f) = omaha_verif::engine::catch(|| case(&mut t, &ctx)).unwrap_or_else(|(loc, msg)| Err(omaha_verif::engine::Failure::new(format!("panic@{loc}"), msg, Default::default()))) {
        if !omaha_verif::engine::is_known(id, &f.signature) {
            panic!("VIOLATION-CANDIDATE property={id} {}: {}", f.signature, f.message);
        }
    }
});

#![no_main]
//! C20: version strings, differential against the reference parser, raw bytes as the string.
use libfuzzer_sys::fuzz_target;
use omaha_verif::{engine::CaseCtx, props::c20, tape::Tape};

fuzz_target!(|data: &[u8]| {
    // raw text first
    if let Ok(s) = std::str::from_utf8(data) {
        if let Err(f) = c20::check_text(s) {
            panic!("VIOLATION-CANDIDATE property=C20 {}: {}", f.signature, f.message);
        }
    }
    let mut t = Tape::from_bytes(data);
    let ctx = CaseCtx { want_sample: false, replay: false };
    if let Err(f) = c20::case(&mut t, &ctx) {
        panic!("VIOLATION-CANDIDATE property=C20 {}: {}", f.signature, f.message);
    }
});

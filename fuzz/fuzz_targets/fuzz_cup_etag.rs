#![no_main]
//! C01: the tape-driven CUP verification case (authentic accepted, mutations rejected, ETag text differential).
use libfuzzer_sys::fuzz_target;
use omaha_verif::{engine::CaseCtx, props::c01, tape::Tape};

fuzz_target!(|data: &[u8]| {
    let mut t = Tape::from_bytes(data);
    let ctx = CaseCtx { want_sample: false, replay: false };
    if let Err(f) = c01::case(&mut t, &ctx) {
        panic!("VIOLATION-CANDIDATE property=C01 {}: {}", f.signature, f.message);
    }
});

#![no_main]
//! C01: the tape-driven CUP verification case (authentic accepted, mutations rejected, ETag text differential).
use libfuzzer_sys::fuzz_target;
use omaha_verif::{engine::CaseCtx, props::c01, tape::Tape};

fuzz_target!(|data: &[u8]| {
    // mode 0 (sampled mutations) or mode 2 (ETag text differential); the exhaustive bit-flip mode is left to the
    // harness (about a thousand signature verifications per case is too slow under sanitizers)
    let mode = if data.first().map(|b| b & 1 == 1).unwrap_or(false) { 0 } else { 2 };
    let mut words = vec![Tape::encode_choice(mode, 3)];
    words.extend_from_slice(Tape::from_bytes(data.get(1..).unwrap_or(&[])).data());
    let mut t = Tape::new(words);
    let ctx = CaseCtx { want_sample: false, replay: false };
    if let Err(f) = c01::case(&mut t, &ctx) {
        panic!("VIOLATION-CANDIDATE property=C01 {}: {}", f.signature, f.message);
    }
});

#![no_main]
//! C16 / C14: the response parser is total; the anti-XSSI prefix changes nothing; whatever it accepts is
//! also agrees, app by app, with a generic JSON parse of the same bytes (when those bytes are JSON at all).
use libfuzzer_sys::fuzz_target;
use omaha_client::protocol::response::parse_json_response;

fuzz_target!(|data: &[u8]| {
    let a = parse_json_response(data);
    if !data.starts_with(b")]}'\n") {
        let mut p = b")]}'\n".to_vec();
        p.extend_from_slice(data);
        let b = parse_json_response(&p);
        match (&a, &b) {
            (Ok(x), Ok(y)) => assert!(x == y, "VIOLATION-CANDIDATE property=C16 prefix changes the parsed value"),
            (Err(_), Err(_)) => {}
            _ => panic!("VIOLATION-CANDIDATE property=C16 prefix changes acceptance"),
        }
    }
    if let Ok(resp) = &a {
        let body = if data.starts_with(b")]}'\n") { &data[5..] } else { data };
        // (the typed parser skips unknown values without validating their string contents, so it may accept bytes a
        // generic JSON parser rejects; the property does not demand rejection there: only compare when both parse)
        let Ok(v) = serde_json::from_slice::<serde_json::Value>(body) else { return };
        let apps = v["response"]["app"].as_array().expect("VIOLATION-CANDIDATE property=C16 accepted a document without response.app");
        assert_eq!(apps.len(), resp.apps.len(), "VIOLATION-CANDIDATE property=C16 app count");
        for (j, a) in apps.iter().zip(&resp.apps) {
            assert_eq!(j["appid"].as_str(), Some(a.id.as_str()), "VIOLATION-CANDIDATE property=C16 appid");
            assert_eq!(j.get("cohort").and_then(|c| c.as_str()), a.cohort.id.as_deref(), "VIOLATION-CANDIDATE property=C16 cohort");
        }
    }
});

#!/bin/bash
# tools/coverage.sh [tier]  -- line coverage of /repo's library sources reached by the checks (quick tier by default).
# Not a check: a way to look for generator gaps (code of the library that no generated case ever executes).
# Builds an instrumented copy of the harness with the nightly toolchain in /tmp/cov (removed at the end), runs every
# check there, and prints per-file line coverage plus the uncovered regions to /verif/tools/coverage-report.txt.
set -u
TIER=${1:-quick}
BIN=$(dirname "$(find ~/.rustup/toolchains/nightly-x86_64-unknown-linux-gnu -name llvm-cov | head -1)")
C=/tmp/cov; rm -rf $C; mkdir -p $C/root/evidence $C/prof
cp /verif/known_findings.json $C/root/; cp -r /verif/replays $C/root/ 2>/dev/null
cd /verif/harness
# instrument only the two library crates and the harness binary (instrumented crypto crates are far too slow)
cat > $C/wrap.sh <<'W'
#!/bin/bash
rustc="$1"; shift
case " $* " in
  *" --crate-name omaha_client "*|*" --crate-name mock_omaha_server "*|*" --crate-name verif "*|*" --crate-name omaha_verif "*) exec "$rustc" "$@" -C instrument-coverage ;;
  *) exec "$rustc" "$@" ;;
esac
W
chmod +x $C/wrap.sh
CARGO_NET_OFFLINE=true CARGO_TARGET_DIR=$C/target RUSTC_WRAPPER=$C/wrap.sh cargo +nightly build --release --offline --bin verif 2>&1 | tail -2
for id in C01 C02 C03 C04 C05 C06 C07 C08 C09 C10 C11 C12 C13 C14 C15 C16 C17 C18 C19 C20; do
  VERIF_SCALE_PCT=${VERIF_SCALE_PCT:-10} VERIF_ROOT=$C/root LLVM_PROFILE_FILE="$C/prof/$id-%p-%m.profraw" $C/target/release/verif $id $TIER 2>&1 | tail -1
done
$BIN/llvm-profdata merge -sparse $C/prof/*.profraw -o $C/all.profdata
$BIN/llvm-cov report $C/target/release/verif -instr-profile=$C/all.profdata --ignore-filename-regex='(\.cargo|rustc|/verif/)' > /verif/tools/coverage-report.txt
$BIN/llvm-cov show $C/target/release/verif -instr-profile=$C/all.profdata --ignore-filename-regex='(\.cargo|rustc|/verif/)' --show-line-counts-or-regions > $C/show.txt
# uncovered non-test lines of the library
python3 - $C/show.txt >> /verif/tools/coverage-report.txt <<'PY'
import sys,re
cur=None; out=[]; intest=False
for l in open(sys.argv[1],errors='replace'):
    if l.startswith('/repo/') and l.rstrip().endswith(':'):
        cur=l.strip()[:-1]; intest=False; continue
    m=re.match(r'\s*(\d+)\|\s*([0-9.kKM]*)\|(.*)',l)
    if not m or cur is None: continue
    ln,cnt,src=m.groups()
    if 'mod tests' in src or 'mod test ' in src or '#[cfg(test)]' in src: intest=True
    if intest: continue
    if cnt=='0': out.append(f"{cur}:{ln}: {src.rstrip()}")
print("\n==== uncovered (executable, count 0) library lines outside test modules ====")
print("\n".join(out))
PY
[ -n "${KEEP_COV:-}" ] || rm -rf $C

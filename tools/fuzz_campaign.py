#!/usr/bin/env python3
"""tools/fuzz_campaign.py <ID> <target> <total_runs>

Coverage-guided libFuzzer campaign (cargo-fuzz, ASan) for the thorough tier of one property: fresh copy of the seed
corpus, 16 parallel jobs with a fixed -runs each, VERIF_SEED as libFuzzer seed.  A crash artefact is converted into a
replay file and re-executed by the plain harness binary to confirm it; fuzz statistics are merged into
evidence/<ID>.json.  Exit 0: nothing found, 1: violation (VIOLATION line printed), 2: inconclusive (build failure...).
"""
import glob, json, os, re, shutil, subprocess, sys, time

ID, target, total = sys.argv[1], sys.argv[2], int(sys.argv[3])
root = os.environ.get('VERIF_ROOT', '/verif')
seed = int(os.environ.get('VERIF_SEED', '0') or 0) or 1   # libFuzzer: 0 means random
jobs = int(os.environ.get('VERIF_FUZZ_JOBS', '16'))
fz = os.path.join(root, 'fuzz')
t0 = time.time()
env = dict(os.environ, CARGO_NET_OFFLINE='true', CARGO_TARGET_DIR=os.path.join(fz, 'target'))
b = subprocess.run(['cargo', '+nightly', 'fuzz', 'build', '--fuzz-dir', fz, target], cwd=fz, env=env, capture_output=True, text=True)
if b.returncode != 0:
    print(b.stderr[-3000:])
    print(f'INCONCLUSIVE property={ID} reason=fuzz target {target} failed to build (not a violation)')
    sys.exit(2)
binary = os.path.join(fz, 'target', 'x86_64-unknown-linux-gnu', 'release', target)
work = os.path.join(fz, 'run-corpus', f'{ID}-{target}')
shutil.rmtree(work, ignore_errors=True)
os.makedirs(work)
corpus = os.path.join(work, 'corpus')
shutil.copytree(os.path.join(fz, 'corpus', target), corpus)
arte = os.path.join(work, 'artifacts') + '/'
os.makedirs(arte)
per = max(1, total // jobs)
cmd = [binary, corpus, f'-runs={per}', f'-seed={seed}', '-len_control=0', '-max_len=1700', f'-jobs={jobs}', f'-workers={jobs}',
       f'-artifact_prefix={arte}', '-print_final_stats=1', '-timeout=60', '-rss_limit_mb=4096']
env2 = dict(env, FUZZ_SIM_ONLY=ID, ASAN_OPTIONS='detect_leaks=0')
r = subprocess.run(cmd, cwd=work, env=env2, capture_output=True, text=True)
execs = cov = 0
for lf in glob.glob(os.path.join(work, 'fuzz-*.log')):
    txt = open(lf, errors='replace').read()
    m = re.findall(r'stat::number_of_executed_units:\s+(\d+)', txt)
    execs += int(m[-1]) if m else 0
    c = re.findall(r'cov: (\d+)', txt)
    cov = max(cov, int(c[-1]) if c else 0)
corp = len(os.listdir(corpus))
crashes = sorted(glob.glob(arte + 'crash-*')) + sorted(glob.glob(arte + 'timeout-*')) + sorted(glob.glob(arte + 'oom-*'))
stats = {'target': target, 'executions': execs, 'corpus_files': corp, 'coverage_edges': cov, 'jobs': jobs, 'runs_per_job': per, 'libfuzzer_seed': seed,
         'crash_artifacts': len(crashes), 'wall_s': round(time.time() - t0, 1)}
code = 0
violation = None
for c in crashes:
    data = open(c, 'rb').read()
    if os.path.basename(c).startswith(('timeout-', 'oom-')):
        print(f'INCONCLUSIVE property={ID} reason=fuzz {os.path.basename(c)} (watchdog / memory limit, not a violation)')
        code = max(code, 2)
        continue
    # artefact -> tape of the plain harness
    if target == 'fuzz_sim':
        body = data[1:]
        words = [int.from_bytes(body[i:i + 4].ljust(4, b'\0'), 'little') for i in range(0, len(body), 4)]
    elif target == 'fuzz_cup_etag':
        mode = 0 if (data[:1] and data[0] & 1) else 2
        enc = -(-(mode << 32) // 3)
        body = data[1:]
        words = [enc] + [int.from_bytes(body[i:i + 4].ljust(4, b'\0'), 'little') for i in range(0, len(body), 4)]
    elif target == 'fuzz_version':
        words = [int.from_bytes(data[i:i + 4].ljust(4, b'\0'), 'little') for i in range(0, len(data), 4)]
    else:
        words = None
    os.makedirs(os.path.join(root, 'failures'), exist_ok=True)
    keep = os.path.join(root, 'failures', f'{ID}-fuzz-{os.path.basename(c)}')
    shutil.copy(c, keep + '.bin')
    confirmed = False
    if words is not None:
        rp = keep + '.json'
        json.dump({'property': ID, 'driver': 'libfuzzer', 'target': target, 'tape': words, 'artifact': keep + '.bin'}, open(rp, 'w'))
        rr = subprocess.run([os.path.join(root, 'target', 'release', 'verif'), ID, 'quick', '--replay', rp], capture_output=True, text=True, env=dict(env, VERIF_ROOT=root))
        confirmed = rr.returncode == 1
        if confirmed:
            violation = rp
    if not confirmed:
        # raw-bytes target, or a sanitizer-only finding: re-run the artefact under the fuzz binary itself
        rr = subprocess.run([binary, keep + '.bin'], capture_output=True, text=True, env=env2)
        if rr.returncode != 0:
            violation = keep + '.bin'
            tail = (rr.stderr or '')[-1500:]
            print(tail)
    if violation:
        print(f'FAILURE property={ID} signature=fuzz:{target} : libFuzzer campaign found a failing input ({os.path.basename(c)})')
        print(f'VIOLATION property={ID} replay={violation}')
        code = 1
        break
# merge into the evidence file written by the harness run
ev = os.path.join(root, 'evidence', f'{ID}.json')
try:
    e = json.load(open(ev))
    e['coverage'].setdefault('fuzz', []).append(stats)
    e['coverage']['evaluations'] += execs
    e['wall_s'] = round(e['wall_s'] + stats['wall_s'], 1)
    if code == 1:
        e['violations'] = e.get('violations', 0) + 1
    json.dump(e, open(ev, 'w'), indent=1)
except Exception as ex:
    print('could not merge fuzz statistics into evidence:', ex)
print(f'{ID} fuzz {target}: executions={execs} corpus={corp} coverage_edges={cov} crashes={len(crashes)} wall={stats["wall_s"]}s exit={code}')
shutil.rmtree(work, ignore_errors=True)
sys.exit(code)
